"""C06 — an expired layout is never accepted.

Monitor: otherwise-valid scenarios whose (top-level or delegated) layout expiry is placed at
controlled offsets from the real clock and written in many RFC 3339 notations of the same
instant.  Three-valued oracle on the logged call interval [t0, t1]: expiry < t0 and Ok is a
violation; expiry > t1 is a positive control; otherwise the case decides nothing.
"""
import copy
import datetime
import time

import common
import pipeline
import scen

PROP = "C06"
UTC = datetime.timezone.utc

DELTAS = [-100 * 365 * 86400, -400 * 86400, -86400, -3600, -1800, -61, -30, -10, 30, 60, 3600, 5 * 3600, 86400,
          100 * 365 * 86400]
NEAR = [x / 2 for x in range(-8, 14)]          # -4.0 .. +6.5 s around "now"
OFFSETS = [None, "+00:00", "-00:00"] + [("%s%02d:%02d" % (sg, h, m)) for sg in "+-" for h in range(0, 15) for m in (0, 30)
                                        if not (sg == "-" and h > 12) and not (h == 14 and m == 30)] + \
          ["+05:45", "+12:45", "+23:59", "-23:59", "+14:00", "-12:00"]
FRACS = ["", "", "", ".5", ".999999999", ".000000001", ".0", ".123"]
STYLES = ["T_Z", "T_Z", "T_Z", "t", "z", "space"]


WEST = ["EST5", "<-11>11", "PST8PDT"]
EAST = ["<+09>-9", "<+14>-14", "CET-1CEST"]


def notation(T, frac, offset, style):
    """text for the instant T (aware UTC datetime, whole second) + frac, in the given offset notation"""
    if offset is None:
        local, suffix = T, "Z"
    else:
        sign = -1 if offset[0] == "-" else 1
        h, m = int(offset[1:3]), int(offset[4:6])
        local = T + sign * datetime.timedelta(hours=h, minutes=m)
        suffix = offset
    s = local.strftime("%Y-%m-%dT%H:%M:%S") + frac + suffix
    if local.year < 1000:
        s = "%04d" % local.year + s[s.index("-"):]
    if style == "t":
        s = s.replace("T", "t")
    elif style == "z" and suffix == "Z":
        s = s[:-1] + "z"
    elif style == "space":
        s = s.replace("T", " ")
    return s


def judge(case, obs, res):
    m = case["meta"]
    if scen.harness_failed(obs):
        res.inconclusive.append(f"executor failure: {str(obs)[:200]}")
        return None
    out = []
    exp_ns = int(m["instant_ns"])
    for r in obs["runs"]:
        t0, t1 = int(r.get("t0", 0)), int(r.get("t1", 0))
        ok = r["v"] == "ok"
        margin = (t0 - exp_ns) / 1e9 if exp_ns < t0 else ((exp_ns - t1) / 1e9 if exp_ns > t1 else 0)
        bucket = "<1s" if margin < 1 else "<3s" if margin < 3 else "<1m" if margin < 60 else "<1d" if margin < 86400 else ">=1d"
        if exp_ns < t0:
            out.append("expired")
            res.classes["margin_expired:" + bucket] += 1
            if ok:
                res.violate(f"expired-accepted:{m['level']}:{m['notation_class']}",
                            f"verification succeeded {((t0 - exp_ns) / 1e9):.3f}s after the {m['level']} layout's expiry "
                            f"(wire text {m['text']!r})", case, obs, "reject")
        elif exp_ns > t1:
            out.append("unexpired_ok" if ok else "unexpired_rejected")
            res.classes["margin_unexpired:" + bucket] += 1
            if not ok:
                res.overstrict += 1
        else:
            out.append("straddles_call")
    return out


def build_case(rng, W, level, delta_s, offset, frac, style, now):
    T = (now + datetime.timedelta(seconds=delta_s)).replace(microsecond=0)
    return {"level": level, "T": T, "offset": offset, "frac": frac, "style": style}


def shard(binpath, seed, sh, plans, tz=None):
    rng = common.rng_for(seed, PROP, sh)
    W = scen.World(binpath)
    res = common.Result()
    # everything of this shard is signed first (expiry is inside the signed part), then verified at once;
    # the instants are computed relative to the moment of generation and judged against the logged call time
    now = datetime.datetime.now(UTC)
    trees, reqs = [], []
    for (level, delta, offset, frac, style) in plans:
        if delta in ("min", "max"):
            T = None
            text = "0000-01-01T00:00:00Z" if delta == "min" else "9999-12-31T23:59:59Z"
        else:
            try:
                T = (now + datetime.timedelta(seconds=delta + 2)).replace(microsecond=0)
                text = notation(T, frac, offset, style)
            except OverflowError:
                continue
        # The document is handed to the signer with the expiry already written in the notation under test:
        # the signature covers whatever the library itself derives from that text, exactly as for a layout
        # authored with this notation.
        if level == "top":
            node = pipeline.make_node(rng, W, 0, ["ed0"], expires=text)
        else:
            node = pipeline.make_node(rng, W, 1, ["ed0"], nsteps=2, delegate_prob=1.0)
            j = rng.randrange(2)
            child = node["steps"][j]["evidence"][0]["node"]
            child["layout"]["expires"] = text
            node["_swept"] = child
            if rng.random() < 0.2:
                # a delegated layout that asks for nothing (no steps, no inspections) expires like any other
                child["layout"]["steps"], child["layout"]["inspect"], child["steps"] = [], [], []
                node["_empty_sub"] = True
            if level == "sub_surplus":
                # the delegated step has a second authorised functionary who supplies a perfectly good plain link: there is
                # enough evidence without the sub-layout, whose expiry must be fatal all the same
                st = node["steps"][j]
                k2 = rng.choice([k for k in ["ed4", "ed5", "ed6", "edp2", "ec-b"] if k != st["evidence"][0]["key"]])
                if k2 not in st["auth"]:
                    st["auth"].append(k2)
                    node["layout"]["steps"][j]["pubkeys"].append(W.kid(k2))
                node["layout"]["keys"][W.kid(k2)] = W.pub(k2)
                st["evidence"].append({"key": k2, "kind": "link", "doc": pipeline.leaf_link(st["name"], j), "signers": [k2]})
        pipeline.collect_requests(node, reqs)
        trees.append((node, level, T, delta, offset, frac, style, text))
    wires = scen.sign_all(binpath, reqs, nproc=1)
    cases = []
    for node, level, T, delta, offset, frac, style, text in trees:
        target = node if level == "top" else node["_swept"]
        level = "sub" if level == "sub_surplus" else level
        surplus = "_swept" in node and any(len(st_["evidence"]) > 1 for st_ in node["steps"])
        w = copy.deepcopy(wires[target["req"]])
        if T is not None:
            frac_ns = int(round(float("0" + frac) * 1e9)) if frac else 0
            instant_ns = int(T.timestamp()) * 10 ** 9 + frac_ns
        else:
            instant_ns = -62167219200 * 10 ** 9 if delta == "min" else 253402300799 * 10 ** 9
        # the signer returns the normalised (UTC, Z) form; the wire file carries the notation under test
        w["signed"]["expires"] = text
        wires[target["req"]] = w
        files = pipeline.tree_files(W, node, wires)
        ncls = ("Z" if offset is None else ("zero-offset" if offset in ("+00:00", "-00:00") else "offset"))
        meta = {"level": level, "surplus": surplus, "empty_sub": bool(node.get("_empty_sub")), "text": text, "instant_ns": str(instant_ns), "notation_class": ncls,
                "frac": bool(frac), "style": style,
                "delta_s": delta if isinstance(delta, str) else round(delta, 1)}
        # the caller may ask for the summary under a name: that has nothing to do with the expiry check
        sn = rng.choice([None, None, "final", "", "release é"])
        meta["summary_name"] = "none" if sn is None else "given"
        cases.append(scen.verify_case(wires[node["req"]], [[W.kid("ed0"), W.pub("ed0")]], files, meta=meta, reps=1, step_name=sn))
    # the verifying process may run in any local time zone: the verdict is about instants, not wall-clock readings
    import os
    env = None
    if tz and tz.startswith("env:"):
        # other things in the verifying process's environment that tools use to pin "the current time"
        k, v = tz[4:].split("=", 1)
        env = dict(os.environ, **{k: v})
    elif tz:
        env = dict(os.environ, TZ=tz)
    obs = common.run_batch(binpath, cases, env=env)
    for c, o in zip(cases, obs):
        m = c["meta"]
        if tz:
            m["tz"] = tz
        out = judge(c, o, res)
        if out is None:
            continue
        cls = [f"{m['level']}:{x}" for x in out] + [f"notation:{m['notation_class']}:{x}" for x in out]
        if tz:
            if tz.startswith("env:"):
                cls += [f"process_environment:{tz[4:].split('=')[0]}:{x}" for x in out]
            else:
                cls += [f"process_time_zone:{'west' if tz in WEST else 'east'}_of_utc:{x}" for x in out]
        if m["frac"]:
            cls += [f"fractional:{x}" for x in out]
        cls += [f"summary_name_{m['summary_name']}:{x}" for x in out]
        if m.get("surplus"):
            cls += [f"sub_layout_next_to_other_evidence:{x}" for x in out]
        if m.get("empty_sub"):
            cls += [f"sub_layout_without_steps:{x}" for x in out]
        if m["style"] != "T_Z":
            cls += [f"style:{m['style']}:{x}" for x in out]
        if "unexpired_rejected" in out:
            cls.append("rejected_reason:" + str(o["runs"][0].get("e", o["runs"][0].get("v")))[:60])
        res.note([m["text"], m["level"], c["layout"][:64]], "straddles_call" not in out, cls=cls)
    if sh == 0:
        for c, o in list(zip(cases, obs))[:4]:
            r = o.get("runs", [{}])[0]
            res.sample({"meta": c["meta"], "verdict": r.get("v"), "error": r.get("e"), "t0": r.get("t0"), "t1": r.get("t1")})
    return res


def history_shard(binpath, seed, sh):
    """verification histories in ONE process: a verification that fails (or succeeds), then real time passes, then a
    layout that expired in the meantime is verified.  Whatever happened before, the later call must see the later clock."""
    rng = common.rng_for(seed, PROP, 7000 + sh)
    W = scen.World(binpath)
    res = common.Result()
    # "same_document_while_valid": the very same layout (and keys, and links) is verified while it is still valid - and
    # succeeds - and again once its expiry has passed
    # "fraction:.f": the expiry carries a fraction of a second and is verified 0.15 s after that instant - well before the next
    # whole second (an expiry is the instant it denotes, not that instant rounded to the precision of some writer)
    first_kinds = ["same_document_while_valid", "bad_signature", "expired_long_ago", "missing_link", "success", "unparseable_link",
                   "fraction:.5", "fraction:.75", "fraction:.500000001"]
    reqs, plans = [], []
    now = datetime.datetime.now(UTC)
    for i, fk in enumerate(first_kinds):
        # first verification
        a = pipeline.make_node(rng, W, 0, ["ed0"], expires="2001-01-01T00:00:00Z" if fk == "expired_long_ago" else None)
        # second verification: expires shortly after generation, verified only after that instant has passed
        T = (now + datetime.timedelta(seconds=(9 if fk == "same_document_while_valid" else 4 + i))).replace(microsecond=0)
        level = rng.choice(["top", "sub"])
        frac = fk.split(":")[1] if fk.startswith("fraction:") else ""
        ttext = scen.iso(T)[:-1] + frac + "Z"
        if level == "top":
            b = pipeline.make_node(rng, W, 0, ["ed0"], expires=ttext)
        else:
            b = pipeline.make_node(rng, W, 1, ["ed0"], nsteps=2, delegate_prob=1.0)
            b["steps"][0]["evidence"][0]["node"]["layout"]["expires"] = ttext
        if fk == "same_document_while_valid":
            a = b
        else:
            pipeline.collect_requests(a, reqs)
        pipeline.collect_requests(b, reqs)
        plans.append((fk, a, b, T, level, frac, ttext))
    wires = scen.sign_all(binpath, reqs, nproc=1)
    cases = []
    for fk, a, b, T, level, frac, ttext in plans:
        fa = pipeline.tree_files(W, a, wires)
        la = copy.deepcopy(wires[a["req"]])
        if fk == "bad_signature":
            la["signatures"][0]["sig"] = "00" * 64
        elif fk == "missing_link":
            fa = {}
        elif fk == "unparseable_link":
            fa = {k: "{not json" for k in fa}
        cases.append(scen.verify_case(la, [[W.kid("ed0"), W.pub("ed0")]], fa,
                                      meta={"level": "top", "text": la["signed"]["expires"], "instant_ns": "0", "notation_class": "Z", "frac": False,
                                            "style": "T_Z", "delta_s": 0, "history": "first:" + fk}))
        exp_ns = int(T.timestamp()) * 10 ** 9 + (int(round(float("0" + frac) * 1e9)) if frac else 0)
        # the wire document carries the expiry as written by its author (the signer's answer holds the library's own rendering)
        target = b if level == "top" else b["steps"][0]["evidence"][0]["node"]
        if frac:
            w = copy.deepcopy(wires[target["req"]])
            w["signed"]["expires"] = ttext
            wires[target["req"]] = w
        c = scen.verify_case(wires[b["req"]], [[W.kid("ed0"), W.pub("ed0")]], pipeline.tree_files(W, b, wires),
                             meta={"level": level, "text": ttext, "instant_ns": str(exp_ns), "notation_class": "Z", "frac": bool(frac),
                                   "style": "T_Z", "delta_s": 0, "history": "after:" + fk})
        c["not_before_ns"] = str(exp_ns + (150_000_000 if frac else 300_000_000))
        cases.append(c)
    obs = common.run_batch(binpath, cases)      # one process, in order
    for c, o in zip(cases, obs):
        m = c["meta"]
        if m["history"].startswith("first:"):
            if not scen.harness_failed(o):
                want_ok = m["history"] in ("first:success", "first:same_document_while_valid") or m["history"].startswith("first:fraction:")
                got_ok = o["runs"][0]["v"] == "ok"
                res.classes[f"history_first:{'ok' if got_ok else 'err'}"] += 1
                if want_ok != got_ok:
                    res.inconclusive.append(f"history set-up call behaved unexpectedly ({m['history']}): {o['runs'][0]}")
            continue
        out = judge(c, o, res)
        if out is None:
            continue
        res.note([m["history"], c["layout"][:80]], True, cls=[f"history:{m['history']}:{x}" for x in out] + [f"history_level:{m['level']}"])
    return res


def concurrent_runs(binpath, seed, sh):
    """two verifications overlapping in ONE process (two threads): a long one (its inspection sleeps) is under way since
    before a second layout's expiry; the second layout is verified after its expiry, while the first call is still
    running.  Each call reads the clock for itself: what another call saw of the time is none of its business."""
    rng = common.rng_for(seed, PROP, 7300 + sh)
    W = scen.World(binpath)
    res = common.Result()
    slow = pipeline.make_node(rng, W, 0, ["ed0"], nsteps=1)
    slow["layout"]["inspect"] = [scen.mk_inspection("wait", ["sh", "-c", "sleep 4"], [["ALLOW", "*"]], [["ALLOW", "*"]])]
    level = ["top", "sub"][sh % 2]
    now = datetime.datetime.now(UTC)
    T = (now + datetime.timedelta(seconds=3)).replace(microsecond=0)
    if level == "top":
        b = pipeline.make_node(rng, W, 0, ["ed0"], expires=scen.iso(T))
    else:
        b = pipeline.make_node(rng, W, 1, ["ed0"], nsteps=2, delegate_prob=1.0)
        b["steps"][0]["evidence"][0]["node"]["layout"]["expires"] = scen.iso(T)
    reqs = []
    pipeline.collect_requests(slow, reqs)
    pipeline.collect_requests(b, reqs)
    wires = scen.sign_all(binpath, reqs, nproc=1)
    exp_ns = int(T.timestamp()) * 10 ** 9
    c = scen.verify_case(wires[b["req"]], [[W.kid("ed0"), W.pub("ed0")]], pipeline.tree_files(W, b, wires),
                         meta={"level": level, "text": scen.iso(T), "instant_ns": str(exp_ns), "notation_class": "Z", "frac": False,
                               "style": "T_Z", "delta_s": 0, "history": "concurrent"})
    c["not_before_ns"] = str(exp_ns + 400_000_000)
    c["background"] = {"layout": scen.dumps(wires[slow["req"]]), "files": pipeline.tree_files(W, slow, wires)}
    o = common.run_batch(binpath, [c])[0]
    if scen.harness_failed(o):
        res.inconclusive.append(f"executor failure: {str(o)[:200]}")
        return res
    bg = o.get("background") or {}
    t0 = int(o["runs"][0]["t0"])
    overlapped = bg.get("v") == "ok" and int(bg["t0"]) < exp_ns and int(bg["t1"]) > int(o["runs"][0]["t1"])
    out = judge(c, o, res)
    if out is not None:
        res.note(["concurrent", c["layout"][:80]], True, cls=[f"concurrent:{x}" for x in out] + [f"concurrent_level:{level}",
                 "concurrent:other_call_started_before_expiry_and_still_running" if overlapped else "concurrent:no_overlap"])
    if not overlapped:
        res.classes["concurrent:set_up_missed"] += 1
    return res


def main(ctx):
    rng = ctx.rng(0)
    plans = []
    # complete grid: every offset notation x {expired an hour ago, valid for an hour} at both levels
    for level in ("top", "sub"):
        for off in OFFSETS:
            for d in (-3600, 3600, -40, 40):
                plans.append((level, d, off, "", "T_Z"))
        for d in DELTAS + NEAR:
            plans.append((level, d, None, "", "T_Z"))
        for d in ("min", "max"):
            plans.append((level, d, None, "", "T_Z"))
    n_rand = 400 if not ctx.thorough else 25000
    for _ in range(n_rand):
        plans.append((rng.choice(["top", "top", "sub", "sub_surplus"]), rng.choice(DELTAS + NEAR + NEAR), rng.choice(OFFSETS + [None] * 20),
                      rng.choice(FRACS), rng.choice(STYLES)))
    rng.shuffle(plans)
    n = common.NPROC
    res = common.Result()
    for p in common.pmap(shard, [(ctx.bin, ctx.seed, s, plans[s::n]) for s in range(n)]):
        res.merge(p)
    # the same sweep (coarser) with the verifying process in time zones west and east of UTC
    tzplans = [(lv, d, off, "", "T_Z") for lv in ("top", "sub") for d in (-13 * 3600, -10 * 3600, -4 * 3600, -3600, -1800, -61, -10, 30, 60, 1800, 3600, 4 * 3600, 10 * 3600, 15 * 3600)
               for off in (None, "+05:30", "-08:00")]
    envs = ["env:SOURCE_DATE_EPOCH=0", "env:SOURCE_DATE_EPOCH=1577836800", "env:FAKETIME=2020-01-01 00:00:00", "env:SOURCE_DATE_EPOCH=4102444800"]
    for p in common.pmap(shard, [(ctx.bin, ctx.seed, 100 + i, tzplans, tz) for i, tz in enumerate(WEST + EAST + envs)]):
        res.merge(p)
    for p in common.pmap(history_shard, [(ctx.bin, ctx.seed, s) for s in range(4 if not ctx.thorough else n)]):
        res.merge(p)
    for p in common.pmap(concurrent_runs, [(ctx.bin, ctx.seed, s) for s in range(2 if not ctx.thorough else n)]):
        res.merge(p)
    res.extras["exhaustive_subspaces"] = [f"{len(OFFSETS)} offset notations x {{-1h,+1h,-40s,+40s}} x {{top-level, delegated}}"]
    res.extras["limit"] = ("verification time is the real clock; 'all verification times' is covered by sweeping the "
                           "expiry against it (the comparison is symmetric in the two instants)")
    req = ["history:after:fraction:.5:expired", "history:after:fraction:.75:expired", "sub_layout_without_steps:expired", "sub_layout_without_steps:unexpired_ok", "concurrent:expired",
           "concurrent:other_call_started_before_expiry_and_still_running", "top:expired", "top:unexpired_ok", "sub:expired", "sub:unexpired_ok", "notation:offset:expired",
           "notation:offset:unexpired_ok", "notation:zero-offset:expired", "notation:Z:expired", "notation:Z:unexpired_ok",
           "fractional:expired", "fractional:unexpired_ok", "history:after:bad_signature:expired", "history:after:success:expired",
           "history:after:expired_long_ago:expired", "history:after:same_document_while_valid:expired", "sub_layout_next_to_other_evidence:expired", "sub_layout_next_to_other_evidence:unexpired_ok", "summary_name_given:expired", "summary_name_given:unexpired_ok", "process_environment:SOURCE_DATE_EPOCH:expired", "process_environment:SOURCE_DATE_EPOCH:unexpired_ok", "process_time_zone:west_of_utc:expired", "process_time_zone:west_of_utc:unexpired_ok",
           "process_time_zone:east_of_utc:expired", "process_time_zone:east_of_utc:unexpired_ok"]
    return common.finish(
        PROP, ctx.tier, ctx.seed, res, t0=ctx.t0,
        rule="valid scenarios with the top-level or a delegated layout's expiry at now+δ (δ from -100y to +100y, dense "
             "within ±6s, years 0000/9999), the wire text rewritten after signing into an equivalent RFC 3339 notation "
             "(every whole/half-hour offset -12:00..+14:00, ±23:59, fractional seconds, t/z/space variants); "
             "non-trivial = the expiry instant lies outside the logged call interval; distinct by (text, level, layout)",
        assumptions=["the expiry instant is known by construction (the generator writes the notation itself)",
                     "the executor's clock reads (t0 before, t1 after the call) bracket the library's own clock read"],
        required=req, min_evals=300)
