"""C02 — links count for a step only if signed by a functionary authorised for it.

Monitor: in_toto_verify over generated link directories in which every (step, key) file is in a
known state; the number of keys that legitimately count for each step is computed from the
descriptor; violation = Ok although some step has fewer than max(1, threshold) such keys.
"""
import copy
import json

import common
import crowd
import pipeline
import scen

PROP = "C02"
POOL = ["ed2", "ed3", "ed4", "edp1", "ec-b", "ec-c"]
OUTSIDERS = ["ed7", "edp3"]
RSA_POOL = ["rsa-2048-a", "rsa-2048-b512"]
STATES = ["absent", "absent", "valid", "valid", "valid", "misfiled", "flipped", "edited", "double", "sublayout_unauth",
          "unsigned", "wrong_name_inside", "cosigned_broken_own", "cosigned_broken_own", "odd_file_name"]


def judge(case, obs, res):
    m = case["meta"]
    if scen.harness_failed(obs):
        res.inconclusive.append(f"executor failure: {str(obs)[:200]}")
        return None
    v = scen.verdicts(obs)
    ok = bool(v) and all(x == "ok" for x in v)
    if any(x == "panic" for x in v):
        res.classes["panic_observed"] += 1
    if ok and m["expect"] == "reject":
        s = m["short"][0]
        res.violate(f"accept-undercounted:{s['why']}",
                    f"verification succeeded although step '{s['step']}' has only {s['count']} legitimately counting "
                    f"key(s) for threshold {s['threshold']}; link states: {s['states']}", case, obs, "reject")
    if (not ok) and m["expect"] == "accept" and m["clean"]:
        res.inconclusive.append(f"positive control rejected: {obs['runs'][0].get('e')}")
        res.classes["positive_control_rejected"] += 1
    return ok


def shard(binpath, seed, sh, n):
    rng = common.rng_for(seed, PROP, sh)
    W = scen.World(binpath)
    res = common.Result()
    weird = scen.unknown_scheme_keys(binpath)
    scs, reqs = [], []
    for i in range(n):
        pool = list(POOL)
        if rng.random() < 0.15:
            pool = pool[:4] + RSA_POOL
        nsteps = rng.choice([1, 1, 2, 3])
        names = rng.sample(pipeline.STEP_NAMES, nsteps)
        table = [k for k in pool if rng.random() < 0.75]
        steps, plan = [], []
        clean_positive = rng.random() < 0.25     # exact-threshold population of valid links only
        for si, name in enumerate(names):
            thr = rng.choice([0, 1, 1, 1, 2, 2, 3])
            if clean_positive:
                thr = rng.choice([1, 1, 2, 3])
                table_ok = [k for k in pool if k in table]
                if len(table_ok) < thr:
                    table = list(pool)
                    table_ok = list(pool)
                auth = rng.sample(table_ok, min(len(table_ok), thr + rng.choice([0, 1])))
            else:
                auth = [k for k in pool if rng.random() < 0.5]
            ids = [W.kid(k) for k in auth]
            repeated = False
            if ids and not clean_positive and rng.random() < 0.3:
                # the list of authorised key ids may name a key more than once: still one key
                ids += [rng.choice(ids) for _ in range(rng.choice([1, 2, 3]))]
                rng.shuffle(ids)
                repeated = True
            steps.append(scen.mk_step(name, thr, ids, [], [["ALLOW", "*"]], [["ALLOW", "*"]]))
            plan.append({"name": name, "threshold": thr, "auth": auth, "repeated": repeated})
        layout = scen.mk_layout(W, table, steps, [])
        wk = None
        if weird and not clean_positive and rng.random() < 0.3:
            # a functionary whose key declares an unknown scheme is listed and authorised for every step
            wk = rng.choice(weird)
            layout["keys"][wk["keyid"]] = wk["pub"]
            for st in layout["steps"]:
                st["pubkeys"].append(wk["keyid"])
        sc = {"layout": layout, "plan": plan, "table": table, "files": [], "clean": clean_positive, "weird": wk}
        base = len(reqs)
        reqs.append((layout, ["ed0"], "new"))
        for si, p in enumerate(plan):
            mats, prods = pipeline.chain_artifacts(si)
            doc = scen.mk_link(p["name"], mats, prods, [], {"return-value": 0}, None)
            counted = 0
            for k in pool + OUTSIDERS:
                if clean_positive:
                    state = "valid" if (k in p["auth"] and counted < p["threshold"]) else "absent"
                    if state == "valid":
                        counted += 1
                else:
                    state = rng.choice(STATES)
                if state == "absent":
                    continue
                f = {"step": p["name"], "key": k, "state": state, "req": len(reqs)}
                if state in ("valid", "flipped", "edited", "wrong_name_inside", "odd_file_name"):
                    d = copy.deepcopy(doc)
                    if state == "wrong_name_inside":
                        pass   # name inside the link is not what is matched; file name decides (kept valid)
                    reqs.append((d, [k], "new"))
                elif state == "misfiled":
                    other = rng.choice([x for x in pool + OUTSIDERS if x != k])
                    f["signed_by"] = other
                    reqs.append((doc, [other], "new"))
                elif state == "double":
                    other = rng.choice(OUTSIDERS if k not in OUTSIDERS else [x for x in OUTSIDERS if x != k])
                    f["signed_by"] = other
                    reqs.append((doc, [k, other], "builder"))
                elif state == "cosigned_broken_own":
                    # filed under k; k's own signature entry is corrupted, another pool key (possibly a functionary of
                    # this very step, possibly with a valid link of its own) has validly co-signed the same file
                    other = rng.choice([x for x in pool if x != k])
                    f["signed_by"] = other
                    reqs.append((doc, [k, other], "builder"))
                elif state == "sublayout_unauth":
                    sub = scen.mk_layout(W, [], [], [])
                    reqs.append((sub, [k], "new"))
                elif state == "unsigned":
                    reqs.append((doc, [], "new"))
                sc["files"].append(f)
        sc["base"] = base
        scs.append(sc)
    wires = scen.sign_all(binpath, reqs, nproc=1)
    cases = []
    for sc in scs:
        lw = wires[sc["base"]]
        files = {}
        per_step = {p["name"]: {"count": 0, "states": {}, "keys": set()} for p in sc["plan"]}
        auth_of = {p["name"]: p["auth"] for p in sc["plan"]}
        for f in sc["files"]:
            w = copy.deepcopy(wires[f["req"]])
            k, st = f["key"], f["state"]
            if st == "flipped":
                b = bytearray(bytes.fromhex(w["signatures"][0]["sig"]))
                pos = rng.randrange(len(b) * 8)
                b[pos // 8] ^= 1 << (pos % 8)
                w["signatures"][0]["sig"] = bytes(b).hex()
            elif st == "edited":
                # one value-changing edit of the signed link: captured output, an artifact added (with or without
                # digests), a digest, the command, a path respelled
                opts = [e for e in scen.single_edits(w["signed"], rng, None)
                        if e[0].startswith(("add_member@/materials", "add_member@/products", "add_member@/byproducts", "set@/materials",
                                            "set@/products", "set@/command", "set@/byproducts", "respell_key@"))]
                if opts and rng.random() < 0.75:
                    w["signed"] = rng.choice(opts)[1]
                else:
                    w["signed"]["byproducts"]["stdout"] = "tampered"
            elif st == "cosigned_broken_own":
                for sg in w["signatures"]:
                    if sg["keyid"] == W.kid(k):
                        b = bytearray(bytes.fromhex(sg["sig"]))
                        b[len(b) // 2] ^= 0x01
                        sg["sig"] = bytes(b).hex()
            if st == "odd_file_name":
                # a valid link by k under a name whose eight-character field is not k's id prefix (it merely contains
                # the beginning of it, or nothing of it): filed under a prefix that none of its signatures carries
                px = W.pfx(k)
                fld = rng.choice(["........", "." + px[:7], px[:3] + ".link", px[:4] + "....", "...." + px[:4], px[:7] + "."])
                files[f"{f['step']}.{fld}.link"] = scen.dumps(w)
            else:
                files[f"{f['step']}.{W.pfx(k)}.link"] = scen.dumps(w)
            authorised = k in auth_of[f["step"]] and k in sc["table"]
            counts = authorised and st in ("valid", "double", "wrong_name_inside")
            if st == "sublayout_unauth":
                counts = False
                if authorised:
                    # an empty sub-layout signed by an authorised key is legitimate evidence (C15's subject)
                    counts = True
            if counts:
                per_step[f["step"]]["keys"].add(k)
            if st == "cosigned_broken_own":
                # most permissive reading: the co-signer's valid signature may count for the CO-SIGNER (never for k)
                o = f["signed_by"]
                if o in auth_of[f["step"]] and o in sc["table"]:
                    per_step[f["step"]]["keys"].add(o)
            per_step[f["step"]]["count"] = len(per_step[f["step"]]["keys"])
            per_step[f["step"]]["states"][k] = st + ("" if authorised else "(unauth)")
        if sc.get("weird"):
            # for every step: a file under the weird key's prefix, validly signed by an outsider and carrying an
            # entry labelled with the weird key's id -- nothing can verify under an unknown scheme, so it never counts
            for p in sc["plan"]:
                donor = next((wires[f["req"]] for f in sc["files"] if f["step"] == p["name"] and wires[f["req"]]["signatures"]), None)
                if donor is None:
                    continue
                w = copy.deepcopy(donor)
                w["signatures"].append({"keyid": sc["weird"]["keyid"], "sig": rng.choice(["ab" * 64, w["signatures"][0]["sig"], "00" * 256])})
                files[f"{p['name']}.{sc['weird']['keyid'][:8]}.link"] = scen.dumps(w)
                per_step[p["name"]]["states"]["<unknown-scheme key>"] = "entry_under_unknown_scheme_key"
        short = []
        for p in sc["plan"]:
            need = max(1, p["threshold"])
            c = per_step[p["name"]]["count"]
            if c < need:
                sts = per_step[p["name"]]["states"]
                good = ("valid", "double", "wrong_name_inside", "sublayout_unauth")
                # which relaxation of the rule would explain an acceptance?
                n_table = sum(1 for k, s_ in sts.items() if s_.split("(")[0] in good and k in sc["table"])
                n_any = sum(1 for k, s_ in sts.items() if s_.split("(")[0] in good)
                if p["threshold"] == 0 and not sts:
                    why = "threshold-0-without-any-link"
                elif n_table >= need:
                    why = "link-by-key-not-authorised-for-this-step-counted"
                elif n_any >= need:
                    why = "link-by-key-outside-the-key-table-counted"
                else:
                    why = "invalid-evidence-counted:" + "+".join(sorted({s_.split("(")[0] for s_ in sts.values() if s_.split("(")[0] not in good})) 
                short.append({"step": p["name"], "count": c, "threshold": p["threshold"], "states": sts, "why": why})
        meta = {"expect": "reject" if short else "accept", "short": short, "clean": sc["clean"],
                "thresholds": [p["threshold"] for p in sc["plan"]],
                "repeated": any(p.get("repeated") for p in sc["plan"]),
                "all_states": sorted({s for ps in per_step.values() for s in ps["states"].values()})}
        cases.append(scen.verify_case(lw, [[W.kid("ed0"), W.pub("ed0")]], files, meta=meta))
    obs = common.run_batch(binpath, cases)
    for c, o in zip(cases, obs):
        m = c["meta"]
        ok = judge(c, o, res)
        if ok is None:
            continue
        cls = ["expect:" + m["expect"], "observed:" + ("accept" if ok else "reject")]
        cls += ["state:" + s for s in m["all_states"]]
        cls += ["threshold:%d" % t for t in set(m["thresholds"])]
        if m["clean"] and ok:
            cls.append("positive_control_accepted")
        if m.get("repeated"):
            cls.append("authorised_list_names_a_key_twice:" + m["expect"])
        decided_by_auth = any("(unauth)" in s for sh_ in m["short"] for s in sh_["states"].values())
        if decided_by_auth:
            cls.append("decided_by_authorisation_rule")
        res.note([c["layout"], sorted(c["files"].items())], bool(c["files"]), cls=cls)
    if sh == 0:
        for c, o in list(zip(cases, obs))[:3]:
            res.sample({"meta": c["meta"], "files": sorted(c["files"]), "verdict": scen.verdicts(o),
                        "error": o.get("runs", [{}])[0].get("e")})
    return res


def prefix_collision(binpath, res, seed):
    """two different keys of the layout whose identifiers share their first eight hex digits (the hash-algorithm list is
    part of a key's description, so such a pair can be searched for): one is a functionary of `build`, the other of `test`
    only.  The link files of both steps are signed by the `test` functionary and filed under the shared prefix."""
    import hashlib
    import jsongen
    import pipeline
    rng = common.rng_for(seed, PROP, 808)
    W = scen.World(binpath)
    ka, kb = rng.sample(["ed2", "ed3", "ed5", "edp1"], 2)
    found = scen.colliding_descriptions(W, ka, kb)
    if found is None:
        res.inconclusive.append("no identifier-prefix collision found in the search budget")
        return
    pub_a, id_a, pub_b, id_b = found
    return _prefix_collision_cases(binpath, res, W, ka, kb, pub_a, id_a, pub_b, id_b)


def _prefix_collision_cases(binpath, res, W, ka, kb, pub_a, id_a, pub_b, id_b):
    import pipeline
    steps = [scen.mk_step("build", 1, [id_a], [], [["ALLOW", "*"]], [["ALLOW", "*"]]),
             scen.mk_step("test", 1, [id_b], [], [["ALLOW", "*"]], [["ALLOW", "*"]])]
    layout = scen.mk_layout(W, [], steps, [], keys={id_a: pub_a, id_b: pub_b})
    wires = scen.sign_all(binpath, [(layout, ["ed0"], "new"), (pipeline.leaf_link("build", 0), [ka], "new"), (pipeline.leaf_link("build", 0), [kb], "new"),
                                    (pipeline.leaf_link("test", 1), [kb], "new")], nproc=1)
    if set(wires[0]["signed"]["keys"]) != {id_a, id_b}:
        res.inconclusive.append("the layout's key table does not hold the two searched identifiers after signing")
        return

    def relabel(w, kid):
        w = copy.deepcopy(w)
        w["signatures"][0]["keyid"] = kid
        return scen.dumps(w)
    pfx = id_a[:8]
    keys = [[W.kid("ed0"), W.pub("ed0")]]
    cases = [scen.verify_case(wires[0], keys, {f"build.{pfx}.link": relabel(wires[1], id_a), f"test.{pfx}.link": relabel(wires[3], id_b)},
                              meta={"kind": "prefix_collision:control", "expect": "accept"}),
             scen.verify_case(wires[0], keys, {f"build.{pfx}.link": relabel(wires[2], id_b), f"test.{pfx}.link": relabel(wires[3], id_b)},
                              meta={"kind": "prefix_collision:link_by_the_other_steps_functionary", "expect": "reject"})]
    for c, o in zip(cases, common.run_batch(binpath, cases)):
        if scen.harness_failed(o):
            res.inconclusive.append(f"executor failure: {str(o)[:200]}")
            continue
        ok = o["runs"][0]["v"] == "ok"
        m = c["meta"]
        res.note([m["kind"], c["layout"][:80]], True, cls=[f"state:{m['kind']}", "observed:" + ("accept" if ok else "reject")])
        if ok and m["expect"] == "reject":
            res.violate("accept-undercounted:link-by-functionary-of-another-step-with-colliding-id-prefix",
                        f"step 'build' was satisfied by a link of a key that is a functionary of 'test' only; the two identifiers "
                        f"({id_a[:12]}.., {id_b[:12]}..) share the prefix the link file is named after", c, o, "reject")
        if not ok and m["expect"] == "accept":
            res.inconclusive.append(f"prefix-collision control rejected: {o['runs'][0].get('e')}")
    res.extras["identifier_prefix_collision"] = {"prefix": pfx}


def twin_rewritten(binpath, res, seed):
    """a link is signed, then replaced by its twin: another document that differs only in where a quote / backslash stands
    (inside a member name or a string, against the same characters as structure).  The signature was not made over the
    twin: the evidence was altered after signing and counts for nothing."""
    import pipeline
    rng = common.rng_for(seed, PROP, 809)
    W = scen.World(binpath)
    k = rng.choice(["ed2", "ed3", "ec-b"])
    layout = scen.mk_layout(W, [k], [scen.mk_step("twin", 1, [W.kid(k)], [], [["ALLOW", "*"]], [["ALLOW", "*"]])], [])
    pairs = scen.twin_links("twin")
    reqs = [(layout, ["ed0"], "new")] + [(a, [k], "new") for a, b in pairs] + [(b, [k], "new") for a, b in pairs]
    wires = scen.sign_all(binpath, reqs, nproc=1)
    keys = [[W.kid("ed0"), W.pub("ed0")]]
    cases = []
    for i, (a, b) in enumerate(pairs):
        wa, wb = wires[1 + i], wires[1 + len(pairs) + i]
        fn = f"twin.{W.pfx(k)}.link"
        cases.append(scen.verify_case(wires[0], keys, {fn: scen.dumps(wa)}, meta={"kind": "twin:genuine", "expect": "accept"}))
        cases.append(scen.verify_case(wires[0], keys, {fn: scen.dumps({"signatures": wa["signatures"], "signed": wb["signed"]})},
                                      meta={"kind": "twin:rewritten_after_signing", "expect": "reject"}))
        cases.append(scen.verify_case(wires[0], keys, {fn: scen.dumps({"signatures": wb["signatures"], "signed": wa["signed"]})},
                                      meta={"kind": "twin:rewritten_after_signing", "expect": "reject"}))
    for c, o in zip(cases, common.run_batch(binpath, cases)):
        if scen.harness_failed(o):
            res.inconclusive.append(f"executor failure: {str(o)[:200]}")
            continue
        ok = o["runs"][0]["v"] == "ok"
        m = c["meta"]
        res.note([m["kind"], sorted(c["files"].items())], True, cls=[f"state:{m['kind']}", "observed:" + ("accept" if ok else "reject")])
        if ok and m["expect"] == "reject":
            res.violate("accept-undercounted:link-rewritten-into-its-twin-after-signing",
                        "a link replaced after signing by a document that differs in where a quote / backslash stands still counted for its step",
                        c, o, "reject")
        if not ok and m["expect"] == "accept":
            res.inconclusive.append(f"twin control rejected: {o['runs'][0].get('e')}")


def same_named_steps(binpath, res, seed):
    """a layout may list several steps under one name (names need not be unique), each with its own functionaries and
    threshold: every listed step needs enough valid links by keys authorised for *that* listing"""
    rng = common.rng_for(seed, PROP, 6100)
    W = scen.World(binpath)
    pool = ["ed2", "ed3", "ed4", "ed5", "edp1", "ec-b"]
    plans, reqs = [], []
    for i in range(24):
        a, b, c = rng.sample(pool, 3)
        listings = rng.choice([[[a], [b]], [[b], [a]], [[a], [a, b]], [[a, b], [b]], [[a], [b], [c]], [[a], [a]]])
        thr = [rng.choice([1, 1, len(l)]) for l in listings]
        present = rng.choice([[a], [b], [a, b], [a, b, c], [c]])
        steps = [scen.mk_step("build", t, [W.kid(k) for k in l], [], [["ALLOW", "*"]], [["ALLOW", "*"]]) for l, t in zip(listings, thr)]
        layout = scen.mk_layout(W, [a, b, c], steps, [])
        plans.append((listings, thr, present, len(reqs)))
        reqs.append((layout, ["ed0"], "new"))
        for k in present:
            reqs.append((pipeline.leaf_link("build", 0), [k], "new"))
    wires = scen.sign_all(binpath, reqs, nproc=1)
    cases = []
    for listings, thr, present, b in plans:
        files = {f"build.{W.pfx(k)}.link": scen.dumps(wires[b + 1 + j]) for j, k in enumerate(present)}
        short = [(l, t) for l, t in zip(listings, thr) if len([k for k in present if k in l]) < max(1, t)]
        cases.append(scen.verify_case(wires[b], [[W.kid("ed0"), W.pub("ed0")]], files, reps=2,
                                      meta={"expect": "reject" if short else "either", "listings": listings, "thr": thr, "present": present,
                                            "short": [list(x) for x in short]}))
    obs = common.run_batch(binpath, cases)
    for c, o in zip(cases, obs):
        m = c["meta"]
        if scen.harness_failed(o):
            res.inconclusive.append(f"executor failure: {str(o)[:200]}")
            continue
        ok = any(r["v"] == "ok" for r in o["runs"])
        res.note([c["layout"], sorted(c["files"])], True, cls=["same_named_steps:expect_" + m["expect"], "same_named_steps:" + ("accepted" if ok else "rejected")], n=2)
        if ok and m["expect"] == "reject":
            res.violate("accept-undercounted:same_named_steps", f"verification succeeded although the listing(s) {m['short']} (functionaries, threshold) of the steps named "
                        f"'build' have too few links by their own functionaries; links present by {m['present']}; all listings {m['listings']} thresholds {m['thr']}",
                        c, o, "reject")


def main(ctx):
    res = common.Result()
    n = 120 if not ctx.thorough else 3500
    for p in common.pmap(shard, [(ctx.bin, ctx.seed, s, n) for s in range(common.NPROC)]):
        res.merge(p)
    prefix_collision(ctx.bin, res, ctx.seed)
    same_named_steps(ctx.bin, res, ctx.seed)
    for p in common.pmap(crowd.functionaries, [(ctx.bin, ctx.seed, PROP, s, 7 if not ctx.thorough else 42, "authorised") for s in range(4 if not ctx.thorough else common.NPROC)]):
        res.merge(p)
    twin_rewritten(ctx.bin, res, ctx.seed)
    return common.finish(
        PROP, ctx.tier, ctx.seed, res, t0=ctx.t0,
        rule="layouts with 1-3 steps, thresholds 0-3, per-step authorised subsets of a 6-key pool, key tables that may "
             "omit authorised keys; every (step, key in pool + 2 outsiders) link file in a state from {absent, valid, "
             "mis-filed (signed by another key), bit-flipped signature, edited after signing, double-signed with an "
             "outsider, empty sub-layout, unsigned}; 25% exact-threshold positive controls; non-trivial = link "
             "directory not empty; distinct by SHA-256 of (layout, directory)",
        assumptions=["ground truth of who validly signed what is by construction"],
        required=["same_named_steps:expect_reject", "same_named_steps:rejected", "authorised_list_names_a_key_twice:reject", "crowd:authorised:one_short_plus_outsiders", "crowd:authorised:exactly_threshold", "crowd:accepted", "crowd:rejected", "positive_control_accepted", "expect:reject", "observed:reject", "state:valid(unauth)", "state:misfiled",
                  "state:flipped", "state:edited", "state:double", "state:cosigned_broken_own", "state:entry_under_unknown_scheme_key", "state:odd_file_name", "state:prefix_collision:control", "state:twin:genuine", "state:twin:rewritten_after_signing", "state:prefix_collision:link_by_the_other_steps_functionary",
                  "decided_by_authorisation_rule", "threshold:0",
                  "threshold:2", "threshold:3"],
        min_evals=500)
