"""C13 — the verification verdict is a deterministic function of its inputs.

Monitor: order-sensitive scenarios (more valid authorised links than the threshold needs, and
they differ) are verified R times in one process (fresh maps => fresh hash seeds) and in P fresh
processes; oracle: exactly one distinct (verdict, summary materials, summary products) per
scenario.  Error messages are not compared.
"""
import copy
import json

import common
import pipeline
import scen

PROP = "C13"
POOL = ["ed1", "ed2", "ed3", "ed4", "ed5", "ed6", "edp1", "edp2", "ec-b", "ec-c"]
KINDS = ["summary_only", "disallow", "match_next", "agreeing_surplus", "two_failing_steps", "delegated_surplus",
         "require", "summary_first_step", "multi_party_nested_dissent", "multi_party_digest_dissent", "match_partial_digest_agreement", "same_key_two_descriptions", "cosigned_by_outsider", "link_named_like_another_step"]


def outcome_key(run, last):
    if run["v"] != "ok":
        return ("reject",)
    s = run["summary"]
    if s == "=":
        return last
    sg = s["signed"]
    return ("accept", json.dumps(sg["materials"], sort_keys=True), json.dumps(sg["products"], sort_keys=True))


def outcomes(obs):
    out, last = [], None
    for r in obs["runs"]:
        k = outcome_key(r, last)
        if r["v"] == "ok":
            last = k
        out.append(k)
    return out


def judge_group(case, obs_list, res):
    """obs_list: observations of the same case from P processes"""
    m = case["meta"]
    allk = []
    for o in obs_list:
        if scen.harness_failed(o):
            res.inconclusive.append(f"executor failure: {str(o)[:200]}")
            return None
        allk += outcomes(o)
    distinct = set(allk)
    if len(distinct) > 1:
        verdicts = {k[0] for k in distinct}
        what = "verdict" if len(verdicts) > 1 else "summary"
        acc = sum(1 for k in allk if k[0] == "accept")
        res.violate(f"nondeterministic-{what}:{m['kind']}",
                    f"{len(allk)} verifications of identical inputs gave {len(distinct)} distinct outcomes "
                    f"({acc} accepts); scenario kind {m['kind']}", case,
                    {"outcomes": [list(k)[:1] + [x[:120] for x in k[1:]] for k in distinct]}, "one outcome")
    return distinct


def judge(case, obs, res):
    return judge_group(case, [obs], res)


def variant_link(name, i, tag):
    mats, prods = pipeline.chain_artifacts(i)
    prods = dict(prods)
    prods[f"out/o{i}"] = scen.digest(0x40 + tag)
    return scen.mk_link(name, mats, prods, ["c"], {"stdout": "o", "return-value": 0}, None)


def build(rng, W, kind):
    n = rng.choice([2, 3, 4])
    keys = rng.sample(POOL, n)
    reqs, links = [], []
    names = ["build", "package"]

    def add(step, key, doc, signers=None):
        links.append({"step": step, "key": key, "req": len(reqs) + 1})
        reqs.append((doc, signers or [key], "new"))

    steps = []
    if kind in ("summary_only", "summary_first_step"):
        steps = [scen.mk_step("build", 1, [W.kid(k) for k in keys], [], [["ALLOW", "*"]], [["ALLOW", "*"]])]
        for t, k in enumerate(keys):
            d = variant_link("build", 0, t)
            if kind == "summary_first_step":
                d["materials"] = {"src/a.c": scen.digest(0x60 + t)}
            add("build", k, d)
    elif kind == "disallow":
        steps = [scen.mk_step("build", 1, [W.kid(k) for k in keys], [], [["ALLOW", "*"]], [["DISALLOW", "evil"], ["ALLOW", "*"]])]
        bad = rng.randrange(n)
        for t, k in enumerate(keys):
            d = variant_link("build", 0, 0)
            if t == bad:
                d["products"]["evil"] = scen.digest(0x66)
            add("build", k, d)
    elif kind == "require":
        steps = [scen.mk_step("build", 1, [W.kid(k) for k in keys], [], [["ALLOW", "*"]], [["REQUIRE", "needed"], ["ALLOW", "*"]])]
        good = rng.randrange(n)
        for t, k in enumerate(keys):
            d = variant_link("build", 0, 0)
            if t == good:
                d["products"]["needed"] = scen.digest(0x67)
            add("build", k, d)
    elif kind == "match_next":
        steps = [scen.mk_step("build", 1, [W.kid(k) for k in keys], [], [["ALLOW", "*"]], [["ALLOW", "*"]]),
                 scen.mk_step("package", 1, [W.kid(keys[0])], [],
                              [["MATCH", "*", "WITH", "PRODUCTS", "FROM", "build"], ["DISALLOW", "*"]], [["ALLOW", "*"]])]
        for t, k in enumerate(keys):
            add("build", k, variant_link("build", 0, t))
        d = pipeline.leaf_link("package", 1)
        d["materials"] = variant_link("build", 0, 0)["products"]
        add("package", keys[0], d)
    elif kind == "link_named_like_another_step":
        # what a link says its name is decides nothing (it is filed by its file name): several items whose links all carry the
        # name of ONE of them, with differing artifacts, and a rule that refers to that name
        k0 = keys[0]
        steps = [scen.mk_step("build", 1, [W.kid(k0)], [], [["ALLOW", "*"]], [["ALLOW", "*"]]),
                 scen.mk_step("package", 1, [W.kid(k0)], [], [["ALLOW", "*"]], [["ALLOW", "*"]]),
                 scen.mk_step("ship", 1, [W.kid(k0)], [],
                              [["MATCH", "out/o0", "WITH", "PRODUCTS", "FROM", "build"], ["DISALLOW", "out/o0"], ["ALLOW", "*"]], [["ALLOW", "*"]])]
        b = variant_link("build", 0, 0)
        p_ = variant_link("build", 0, 1)              # filed for step package, says "build", another digest for out/o0
        sh_ = variant_link(rng.choice(["build", "ship"]), 0, 0)
        sh_["materials"] = dict(b["products"])
        add("build", k0, b)
        add("package", k0, p_)
        add("ship", k0, sh_)
    elif kind == "agreeing_surplus":
        thr = rng.choice([1, 2])
        steps = [scen.mk_step("build", thr, [W.kid(k) for k in keys], [], [["ALLOW", "*"]], [["ALLOW", "*"]])]
        for t, k in enumerate(keys):
            add("build", k, variant_link("build", 0, 0))
    elif kind in ("multi_party_nested_dissent", "multi_party_digest_dissent"):
        # threshold >= 2 and one link whose artifacts are a strict sub-/superset of (or differ in a digest from) the others':
        # whatever the verdict is, it must not depend on which link the implementation happens to compare against
        thr = rng.choice([2, 2, 3]) if n >= 3 else 2
        steps = [scen.mk_step("build", min(thr, n), [W.kid(k) for k in keys], [], [["ALLOW", "*"]], [["ALLOW", "*"]])]
        odd = rng.randrange(n)
        where = rng.choice(["materials", "products"])
        how = rng.choice(["extra", "missing"]) if kind == "multi_party_nested_dissent" else "digest"
        for t, k in enumerate(keys):
            d = variant_link("build", 0, 0)
            d["products"]["out/second"] = scen.digest(0x31)
            d["materials"]["src/second"] = scen.digest(0x32)
            if t == odd:
                if how == "extra":
                    d[where]["only/here"] = scen.digest(0x33)
                elif how == "missing":
                    del d[where][sorted(d[where])[-1]]
                else:
                    d[where][sorted(d[where])[0]] = scen.digest(0x34)
            add("build", k, d)
    elif kind == "match_partial_digest_agreement":
        # artifacts carry two digests; the next step's material agrees with the source on one algorithm and disagrees on
        # the other: the descriptions are unequal, MATCH must not consume it, DISALLOW then rejects -- on every run
        steps = [scen.mk_step("build", 1, [W.kid(keys[0])], [], [["ALLOW", "*"]], [["ALLOW", "*"]]),
                 scen.mk_step("package", 1, [W.kid(keys[1])], [],
                              [["MATCH", "*", "WITH", "PRODUCTS", "FROM", "build"], ["DISALLOW", "*"]], [["ALLOW", "*"]])]
        src = variant_link("build", 0, 0)
        for pth in src["products"]:
            src["products"][pth] = {"sha256": "11" * 32, "sha512": "22" * 64}
        add("build", keys[0], src)
        d = pipeline.leaf_link("package", 1)
        d["materials"] = {pth: {"sha256": "11" * 32, "sha512": "22" * 64} for pth in src["products"]}
        odd = rng.choice(sorted(d["materials"]))
        d["materials"][odd] = rng.choice([{"sha256": "11" * 32, "sha512": "33" * 64}, {"sha256": "44" * 32, "sha512": "22" * 64}])
        add("package", keys[1], d)
    elif kind == "same_key_two_descriptions":
        # one key, described with and without the hash-algorithm list: two identifiers, both authorised, each with its own
        # validly signed link, and the links differ (threshold 1, so there is a surplus)
        import hashlib
        import jsongen
        k = keys[0]
        alt = W.pub(k)
        alt.pop("keyid", None)
        if "keyid_hash_algorithms" in alt:
            del alt["keyid_hash_algorithms"]
        else:
            alt["keyid_hash_algorithms"] = ["sha256", "sha512"]
        dsc = {"keytype": alt["keytype"], "scheme": alt["scheme"], "keyval": {"public": alt["keyval"]["public"]}}
        if "keyid_hash_algorithms" in alt:
            dsc["keyid_hash_algorithms"] = alt["keyid_hash_algorithms"]
        alt_id = hashlib.sha256(jsongen.olpc_canon(dsc).encode()).hexdigest()
        table = {W.kid(k): W.pub(k), alt_id: alt}
        others = keys[1:rng.choice([1, 2])]
        for o in others:
            table[W.kid(o)] = W.pub(o)
        steps = [scen.mk_step("build", 1, [W.kid(k), alt_id] + [W.kid(o) for o in others], [], [["ALLOW", "*"]],
                              rng.choice([[["ALLOW", "*"]], [["DISALLOW", "evil"], ["ALLOW", "*"]]]))]
        d0, d1 = variant_link("build", 0, 0), variant_link("build", 0, 1)
        if rng.random() < 0.5:
            (d0 if rng.random() < 0.5 else d1)["products"]["evil"] = scen.digest(0x66)
        add("build", k, d0)
        add("build", k, d1)
        links[-1]["relabel"] = alt_id
        for t, o in enumerate(others):
            add("build", o, variant_link("build", 0, 2 + t))
        layout = scen.mk_layout(W, [], steps, [], keys=table)
        return {"kind": kind, "layout": layout, "links": links, "reqs": reqs, "keys": keys, "sub": [], "probe": [W.kid(k), alt_id] + [W.kid(o) for o in others]}
    elif kind == "cosigned_by_outsider":
        # every link file also carries the signature of somebody who is not a functionary of the step (a colleague, a
        # build service); what such an entry does to the verdict, it does on every run
        outsider = rng.choice([k for k in POOL if k not in keys] or ["ed7"])
        thr = rng.choice([1, 1, 2])
        steps = [scen.mk_step("build", min(thr, n), [W.kid(k) for k in keys], [], [["ALLOW", "*"]], [["ALLOW", "*"]])]
        for t, k in enumerate(keys):
            add("build", k, variant_link("build", 0, 0), signers=rng.choice([[k, outsider], [outsider, k]]))
    elif kind == "two_failing_steps":
        steps = [scen.mk_step("build", 1, [W.kid(keys[0])], [], [], [["DISALLOW", "*"]]),
                 scen.mk_step("package", 1, [W.kid(keys[1])], [], [["DISALLOW", "*"]], [])]
        add("build", keys[0], pipeline.leaf_link("build", 0))
        add("package", keys[1], pipeline.leaf_link("package", 1))
    elif kind == "delegated_surplus":
        steps = [scen.mk_step("build", 1, [W.kid(k) for k in keys], [], [["ALLOW", "*"]], [["ALLOW", "*"]])]
    layout = scen.mk_layout(W, keys, steps, [])
    sc = {"kind": kind, "layout": layout, "links": links, "reqs": reqs, "keys": keys, "sub": []}
    if kind == "delegated_surplus":
        # two or more authorised keys each delegate to their own sub-layout; the inner products differ
        for t, k in enumerate(keys):
            inner_step = scen.mk_step("inner", 1, [W.kid(k)], [], [["ALLOW", "*"]], [["ALLOW", "*"]])
            inner = scen.mk_layout(W, [k], [inner_step], [])
            sc["sub"].append({"key": k, "layout_req": len(reqs) + 1, "link_req": len(reqs) + 2})
            reqs.append((inner, [k], "new"))
            reqs.append((variant_link("inner", 0, t), [k], "new"))
    return sc


def shard(binpath, seed, sh, n, reps, procs):
    rng = common.rng_for(seed, PROP, sh)
    W = scen.World(binpath)
    res = common.Result()
    scs, reqs = [], []
    for i in range(n):
        sc = build(rng, W, KINDS[(i + sh) % len(KINDS)])
        sc["base"] = len(reqs)
        reqs.append((sc["layout"], ["ed0"], "new"))
        reqs.extend(sc["reqs"])
        scs.append(sc)
    wires = scen.sign_all(binpath, reqs, nproc=1)
    cases = []
    for sc in scs:
        b = sc["base"]
        files = {}
        for l in sc["links"]:
            w = wires[b + l["req"]]
            if l.get("relabel"):
                # the same key under its other identifier: the signature is as valid, the attribution differs
                w = copy.deepcopy(w)
                w["signatures"][0]["keyid"] = l["relabel"]
                files[f"{l['step']}.{l['relabel'][:8]}.link"] = scen.dumps(w)
            else:
                files[f"{l['step']}.{W.pfx(l['key'])}.link"] = scen.dumps(w)
        for s in sc["sub"]:
            files[f"build.{W.pfx(s['key'])}.link"] = scen.dumps(wires[b + s["layout_req"]])
            files[f"build.{W.pfx(s['key'])}/inner.{W.pfx(s['key'])}.link"] = scen.dumps(wires[b + s["link_req"]])
        cases.append(scen.verify_case(wires[b], [[W.kid("ed0"), W.pub("ed0")]], files, reps=reps,
                                      probe_ids=sc.get("probe") or [W.kid(k) for k in sc["keys"]],
                                      meta={"kind": sc["kind"], "nlinks": len(sc["keys"])}))
    per_proc = [common.run_batch(binpath, cases) for _ in range(procs)]
    for ci, c in enumerate(cases):
        ol = [pp[ci] for pp in per_proc]
        d = judge_group(c, ol, res)
        if d is None:
            continue
        m = c["meta"]
        nruns = sum(len(o["runs"]) for o in ol)
        orders = max(o.get("distinct_orders", 0) for o in ol)
        cls = [f"kind:{m['kind']}", f"outcomes:{len(d)}", "accept_seen" if any(k[0] == "accept" for k in d) else "reject_only"]
        if orders > 1:
            cls.append("iteration_order_varied")
        res.note([c["layout"], sorted(c["files"].items())], m["kind"] not in ("agreeing_surplus", "two_failing_steps"),
                 cls=cls, n=nruns)
        res.extras["max_distinct_iteration_orders_per_scenario"] = max(
            res.extras.get("max_distinct_iteration_orders_per_scenario", 0), orders)
        res.classes["scenarios_with_>1_iteration_orders"] += 1 if orders > 1 else 0
    if sh == 0:
        for ci in range(min(3, len(cases))):
            res.sample({"meta": cases[ci]["meta"], "files": sorted(cases[ci]["files"]),
                        "outcomes_first_process": [list(k)[:1] for k in outcomes(per_proc[0][ci])][:6],
                        "distinct_iteration_orders": per_proc[0][ci].get("distinct_orders")})
    return res


def history(binpath, seed, sh):
    """the verdict for one input must not depend on what the process verified before: A, then many verifications that
    fail (inside a sub-layout, at the top level, in a rule), then A again -- in one executor process"""
    import copy
    rng = common.rng_for(seed, PROP, 9000 + sh)
    W = scen.World(binpath)
    res = common.Result()
    reqs = []
    good = pipeline.make_node(rng, W, 2, ["ed0"], nsteps=2, delegate_prob=1.0)
    bad = pipeline.make_node(rng, W, 2, ["ed0"], nsteps=2, delegate_prob=1.0)
    plain = pipeline.make_node(rng, W, 0, ["ed0"], nsteps=2)
    for nd in (good, bad, plain):
        pipeline.collect_requests(nd, reqs)
    wires = scen.sign_all(binpath, reqs, nproc=1)
    keys = [[W.kid("ed0"), W.pub("ed0")]]
    gf = pipeline.tree_files(W, good, wires)
    bf_full = pipeline.tree_files(W, bad, wires)
    # failing variants of `bad`: an inner link removed (fails inside the sub-layout), everything removed, a corrupted file
    inner = sorted(k for k in bf_full if "/" in k and k.endswith(".link"))
    fails = []
    for i in range(144):                      # well beyond any fixed nesting / retry bound a counter could hit
        f = dict(bf_full)
        if i % 3 == 0 and inner:
            del f[inner[i % len(inner)]]
        elif i % 3 == 1:
            f = {k: v for k, v in f.items() if "/" in k}
        else:
            k = sorted(f)[i % len(f)]
            f[k] = f[k][:len(f[k]) // 2]
        fails.append(scen.verify_case(wires[bad["req"]], keys, f, meta={"kind": "history_filler"}))
    a = scen.verify_case(wires[good["req"]], keys, gf, reps=2, meta={"kind": "history", "nlinks": 0})
    p = scen.verify_case(wires[plain["req"]], keys, pipeline.tree_files(W, plain, wires), reps=2, meta={"kind": "history_plain", "nlinks": 0})
    seq = [a, p] + fails + [copy.deepcopy(a), copy.deepcopy(p)]
    obs = common.run_batch(binpath, seq)          # one process, in this order
    for first, again, name in ((0, len(seq) - 2, "delegated"), (1, len(seq) - 1, "plain")):
        d = judge_group(seq[first], [obs[first], obs[again]], res)
        if d is not None:
            res.note(["history", name, seq[first]["layout"][:60]], True,
                     cls=[f"history:{name}:outcomes:{len(d)}", "history:" + ("accept" if any(k[0] == "accept" for k in d) else "reject")], n=4)
    nf = sum(1 for o in obs[2:-2] if not scen.harness_failed(o) and o["runs"][0]["v"] != "ok")
    res.classes["history:failing_verifications_in_between"] += nf
    return res


def concurrent_neighbour(binpath, seed, sh):
    """the verdict and summary for one input are the same whether the call runs alone or while ANOTHER verification (other
    layout, other keys in other forms, failing or succeeding, with a sleeping inspection) is under way on a second thread
    of the process"""
    rng = common.rng_for(seed, PROP, 9500 + sh)
    W = scen.World(binpath)
    res = common.Result()
    reqs = []
    subject = pipeline.make_node(rng, W, rng.choice([0, 1, 2]), ["ed0"], nsteps=2, delegate_prob=0.7)
    other = pipeline.make_node(rng, W, rng.choice([0, 1]), ["ed0"], nsteps=2, delegate_prob=0.5)
    other["layout"]["inspect"] = [scen.mk_inspection("wait", ["sh", "-c", "sleep 1"], [["ALLOW", "*"]], [["ALLOW", "*"]])]
    for nd in (subject, other):
        pipeline.collect_requests(nd, reqs)
    wires = scen.sign_all(binpath, reqs, nproc=1)
    keys = [[W.kid("ed0"), W.pub("ed0")]]
    sf = pipeline.tree_files(W, subject, wires)
    of = pipeline.tree_files(W, other, wires)
    variants = [("subject_ok", sf)]
    inner = sorted(k for k in sf if "/" in k and k.endswith(".link"))
    if inner:
        f2 = dict(sf)
        del f2[inner[0]]
        variants.append(("subject_fails_inside_a_sub_layout", f2))
    for name, files in variants:
        alone = scen.verify_case(wires[subject["req"]], keys, files, reps=3, meta={"kind": "concurrent_neighbour", "nlinks": 0})
        for bg_kind in ("succeeding", "failing"):
            withbg = copy.deepcopy(alone)
            withbg["background"] = {"layout": scen.dumps(wires[other["req"]]), "files": of if bg_kind == "succeeding" else {}}
            o = common.run_batch(binpath, [alone, withbg, copy.deepcopy(alone)])
            d = judge_group(alone, o, res)
            if d is not None:
                bg = o[1].get("background", {})
                res.note(["concurrent_neighbour", name, bg_kind, alone["layout"][:60]], True,
                         cls=[f"concurrent_neighbour:{name}:outcomes:{len(d)}", "concurrent_neighbour:background_" + ("ok" if bg.get("v") == "ok" else "err")], n=9)
    return res


def key_forms_history(binpath, seed):
    """two independent, valid chains that authorise the same key material described in its two forms (with / without the
    hash-algorithm list: two ids); each chain is verified in two executor processes, once before and once after the
    other chain: what a process has seen of a key before must not decide the verdict"""
    import hashlib
    import jsongen
    W = scen.World(binpath)
    res = common.Result()
    for k in ("rsa-2048-a", "rsa-3072-a", "ed1", "ec-a", "rsa-2048-b512"):
        own = W.pub(k)
        alt = W.pub(k)
        alt.pop("keyid", None)
        if "keyid_hash_algorithms" in alt:
            del alt["keyid_hash_algorithms"]
        else:
            alt["keyid_hash_algorithms"] = ["sha256", "sha512"]
        dsc = {"keytype": alt["keytype"], "scheme": alt["scheme"], "keyval": {"public": alt["keyval"]["public"]}}
        if "keyid_hash_algorithms" in alt:
            dsc["keyid_hash_algorithms"] = alt["keyid_hash_algorithms"]
        alt_id = hashlib.sha256(jsongen.olpc_canon(dsc).encode()).hexdigest()
        chains = []
        reqs = []
        for kid, desc in ((W.kid(k), own), (alt_id, alt)):
            steps = [scen.mk_step("build", 1, [kid], [], [["ALLOW", "*"]], [["ALLOW", "*"]])]
            reqs.append((scen.mk_layout(W, [], steps, [], keys={kid: desc}, readme="form " + kid[:6]), ["ed0"], "new"))
            reqs.append((pipeline.leaf_link("build", 0), [k], "new"))
        wires = scen.sign_all(binpath, reqs, nproc=1)
        # each layout is signed by a process that holds the owner's key only and has seen no other key before
        hdr = {"ed0": common.key_header()["ed0"]}
        for j in (0, 2):
            o = common.run_batch(binpath, [{"op": "sign", "signed": reqs[j][0], "signers": ["ed0"], "via": "new"}], keys=hdr)[0]
            if "ok" not in o:
                raise common.Inconclusive(f"library refused to sign a generated layout: {str(o)[:300]}")
            wires[j] = o["ok"]["wire"]
        keys = [[W.kid("ed0"), W.pub("ed0")]]
        for j, kid in enumerate((W.kid(k), alt_id)):
            l = copy.deepcopy(wires[2 * j + 1])
            l["signatures"][0]["keyid"] = kid
            chains.append(scen.verify_case(wires[2 * j], keys, {f"build.{kid[:8]}.link": scen.dumps(l)}, reps=2,
                                           meta={"kind": "key_forms_history", "nlinks": 1}))
        a, b = chains
        o1 = common.run_batch(binpath, [a, b, copy.deepcopy(a)])
        # (the second process has not even loaded the executor's own key pool: it meets the key in its other form first)
        o2 = common.run_batch(binpath, [b, a, copy.deepcopy(b)], keys=False)
        for case, group, name in ((a, [o1[0], o1[2], o2[1]], "own_form"), (b, [o1[1], o2[0], o2[2]], "other_form")):
            d = judge_group(case, group, res)
            if d is not None:
                kt = k.split("-")[0].rstrip("0123456789")
                res.note(["key_forms_history", k, name], True,
                         cls=[f"key_forms_history:{kt}:outcomes:{len(d)}", "key_forms_history:" + ("accept" if any(x[0] == "accept" for x in d) else "reject")], n=6)
    return res


ALIAS_NAMES = [("lib", "lib64"), ("lib64", "lib"), ("a", "b"), ("b", "a"), ("out", "out.d"), ("pkg", "pkg-current"),
               ("zz", "aa"), ("data", "current"), ("current", "data"), ("m", "n"), ("n", "m"), ("x1", "x2"),
               ("target", "latest"), ("v1.0", "stable"), ("stable", "v1.0"), ("Dir", "dir")]


def enum_order(binpath, seed, sh):
    """directory enumeration order: an inspection over a working directory in which one directory is also reachable
    through a symlink (both names are recorded, C18), with a REQUIRE rule on one of the two names.  The same shape is
    verified under many pairs of names (a hashed directory index orders entries by name), with the two entries created
    in either order, in the scratch directory and - where available - on a tmpfs (which enumerates by creation time).
    Same shape => one verdict; identical names and contents in another creation order => identical inputs."""
    import os
    import shutil
    rng = common.rng_for(seed, PROP, 7000 + sh)
    W = scen.World(binpath)
    res = common.Result()
    fname = rng.choice(["libfoo.so", "f.txt", "x.bin"])
    require_alias = rng.choice([True, False])
    reqs, plans = [], []
    for real, link in ALIAS_NAMES:
        req = f"{link if require_alias else real}/{fname}"
        insp = scen.mk_inspection("check", ["true"], [["REQUIRE", req], ["ALLOW", "*"]], [["REQUIRE", req], ["ALLOW", "*"]])
        layout = scen.mk_layout(W, ["ed4"], [scen.mk_step("build", 1, [W.kid("ed4")], [], [["ALLOW", "*"]], [["ALLOW", "*"]])], [insp])
        plans.append((real, link, len(reqs)))
        reqs.append((layout, ["ed0"], "new"))
        reqs.append((pipeline.leaf_link("build", 0), ["ed4"], "new"))
    wires = scen.sign_all(binpath, reqs, nproc=1)
    shm = f"/dev/shm/itv-c13-{os.getpid()}-{sh}"
    try:
        os.makedirs(shm, exist_ok=True)
        roots = [None, shm]
    except OSError:
        roots = [None]
    cases = []
    try:
        for real, link, b in plans:
            files = {f"build.{W.pfx('ed4')}.link": scen.dumps(wires[b + 1])}
            work = {f"{real}/{fname}": "content\n", link: {"symlink": real}, "other.txt": "x"}
            for root in roots:
                for order in ([f"{real}/{fname}", link], [link, f"{real}/{fname}"]):
                    c = scen.verify_case(wires[b], [[W.kid("ed0"), W.pub("ed0")]], files, work_files=work,
                                         meta={"kind": "enumeration_order", "names": [real, link], "first": order[0], "tmpfs": root is not None})
                    c["work_order"] = order
                    if root:
                        c["work_root"] = root
                    cases.append(c)
        obs = common.run_batch(binpath, cases)
    finally:
        shutil.rmtree(shm, ignore_errors=True)
    verdicts, orders = [], set()
    for c, o in zip(cases, obs):
        if scen.harness_failed(o):
            res.inconclusive.append(f"executor failure: {str(o)[:200]}")
            return res
        m = c["meta"]
        enum = [x for x in o.get("work_enumeration", []) if x in m["names"]]
        link_first = bool(enum) and enum[0] == m["names"][1]
        orders.add((m["tmpfs"] and o.get("work_root_used"), link_first))
        verdicts.append((o["runs"][0]["v"] == "ok", m, link_first, o["runs"][0].get("e")))
        res.note(["enum", c["layout"][:80], m["first"], m["tmpfs"]], True,
                 cls=["kind:enumeration_order", "enumeration:symlink_listed_" + ("first" if link_first else "second"),
                      "enumeration:on_tmpfs" if (m["tmpfs"] and o.get("work_root_used")) else "enumeration:in_scratch"])
    oks = [v for v in verdicts if v[0]]
    if oks and len(oks) != len(verdicts):
        bad = [v for v in verdicts if not v[0]]
        first_bad = sum(1 for v in bad if v[2])
        res.violate("verdict-depends-on-directory-enumeration-order",
                    f"{len(oks)} of {len(verdicts)} verifications of the same working-directory shape succeed and {len(bad)} fail "
                    f"({first_bad} of the failing ones list the symlink before the directory); e.g. names {bad[0][1]['names']}: {bad[0][3]}",
                    cases[verdicts.index(bad[0])], {"accepting": [v[1]["names"] for v in oks][:6], "rejecting": [v[1]["names"] for v in bad][:6]}, "one verdict")
    elif not oks:
        res.inconclusive.append(f"enumeration-order family: every variant rejected: {verdicts[0][3]}")
    else:
        res.classes["accept_seen"] += 1
    res.extras["enumeration_orders_seen"] = sorted(f"{'tmpfs' if a else 'scratch'}:{'symlink-first' if b else 'directory-first'}" for a, b in orders)
    return res


def sublayout_order(binpath, seed, sh, copies):
    """two delegated steps whose sub-layouts each carry an inspection; the inspections meet in the one working
    directory (one leaves a file behind, the other forbids that file among its materials), so the verdict shows in
    which order the sub-layouts were verified.  Identical inputs (fresh working directory per verification) => one verdict."""
    rng = common.rng_for(seed, PROP, 8000 + sh)
    W = scen.World(binpath)
    res = common.Result()
    reqs, plans = [], []
    for v in range(6):
        n1, n2 = rng.sample(pipeline.STEP_NAMES[:9], 2)
        d1, d2 = rng.sample(["ed4", "ed5", "ed6", "edp2", "ec-b"], 2)
        writer_first = v % 2 == 0
        top = scen.mk_layout(W, [d1, d2], [scen.mk_step(n1, 1, [W.kid(d1)], [], [["ALLOW", "*"]], [["ALLOW", "*"]]),
                                           scen.mk_step(n2, 1, [W.kid(d2)], [], [["ALLOW", "*"]], [["ALLOW", "*"]])], [])
        base = len(reqs)
        reqs.append((top, ["ed0"], "new"))
        subs = []
        for j, (nm, dk) in enumerate(((n1, d1), (n2, d2))):
            writes = (j == 0) == writer_first
            if writes:
                insp = scen.mk_inspection(f"leave{j}", ["sh", "-c", "echo x > marker.txt"], [["ALLOW", "*"]], [["ALLOW", "*"]])
            else:
                insp = scen.mk_inspection(f"look{j}", ["true"], [["DISALLOW", "marker.txt"], ["ALLOW", "*"]], [["ALLOW", "*"]])
            inner = scen.mk_layout(W, ["ed1"], [scen.mk_step("inner", 1, [W.kid("ed1")], [], [["ALLOW", "*"]], [["ALLOW", "*"]])], [insp])
            subs.append((nm, dk, len(reqs)))
            reqs.append((inner, [dk], "new"))
            reqs.append((pipeline.leaf_link("inner", 0), ["ed1"], "new"))
        plans.append((base, subs, writer_first))
    wires = scen.sign_all(binpath, reqs, nproc=1)
    cases, groups = [], []
    for base, subs, writer_first in plans:
        files = {}
        for nm, dk, b in subs:
            files[f"{nm}.{W.pfx(dk)}.link"] = scen.dumps(wires[b])
            files[f"{nm}.{W.pfx(dk)}/inner.{W.pfx('ed1')}.link"] = scen.dumps(wires[b + 1])
        g = []
        for _ in range(copies):
            g.append(len(cases))
            cases.append(scen.verify_case(wires[base], [[W.kid("ed0"), W.pub("ed0")]], files, work_files={"pre.txt": "p"},
                                          meta={"kind": "sublayout_inspections_share_workdir", "writer_first_in_layout": writer_first, "nlinks": 0}))
        groups.append(g)
    obs = common.run_batch(binpath, cases)
    for g in groups:
        d = judge_group(cases[g[0]], [obs[i] for i in g], res)
        if d is not None:
            res.note(["sublayout_order", cases[g[0]]["layout"][:80]], True,
                     cls=["kind:sublayout_inspections_share_workdir", "kind:inspections_share_workdir", "kind:key_ids_sharing_their_short_form", "inspection_order:accept", "inspection_order:reject", f"outcomes:{len(d)}",
                          "sublayout_order:" + ("accept" if any(k[0] == "accept" for k in d) else "reject")], n=len(g))
    return res


def keyid_spelling(binpath, seed, sh, reps):
    """key identifiers written with capital hex digits on one side of a lookup (the signature entry of the layout, a
    member name of the key table): whatever the library makes of such a spelling, it makes the same of it on every run -
    many repetitions with fresh maps, because a lookup that depends on the hash seed may hit only once in a hundred"""
    rng = common.rng_for(seed, PROP, 6000 + sh)
    W = scen.World(binpath)
    res = common.Result()
    owner = rng.choice(["ed0", "edp0", "ed1"])
    fn = rng.choice(["ed4", "ed5", "edp2"])
    empty = scen.mk_layout(W, [], [], [])
    one = scen.mk_layout(W, [fn], [scen.mk_step("build", 1, [W.kid(fn)], [], [["ALLOW", "*"]], [["ALLOW", "*"]])], [])
    wires = scen.sign_all(binpath, [(empty, [owner], "new"), (one, [owner], "new"), (pipeline.leaf_link("build", 0), [fn], "new")], nproc=1)
    keys = [[W.kid(owner), W.pub(owner)]]
    link_files = {f"build.{W.pfx(fn)}.link": scen.dumps(wires[2])}
    cases = []
    # (a) the owner's signature entry names the key id in capitals
    w = copy.deepcopy(wires[0])
    w["signatures"][0]["keyid"] = w["signatures"][0]["keyid"].upper()
    cases.append(scen.verify_case(w, keys, {}, reps=reps, meta={"kind": "keyid_capitals:layout_signature", "nlinks": 0}))
    # (b) the functionary's key is filed in the key table under its id in capitals (the layout is signed that way)
    one_up = copy.deepcopy(one)
    one_up["keys"] = {k.upper(): v for k, v in one["keys"].items()}
    w2 = scen.sign_all(binpath, [(one_up, [owner], "new")], nproc=1)[0]
    w2["signed"]["keys"] = one_up["keys"]         # on the wire as authored, not as the signer normalised it
    cases.append(scen.verify_case(w2, keys, link_files, reps=reps, meta={"kind": "keyid_capitals:key_table_member", "nlinks": 1}))
    # (c) the link's signature entry names the functionary's id in capitals
    l3 = copy.deepcopy(wires[2])
    l3["signatures"][0]["keyid"] = l3["signatures"][0]["keyid"].upper()
    cases.append(scen.verify_case(wires[1], keys, {f"build.{W.pfx(fn)}.link": scen.dumps(l3)}, reps=reps,
                                  meta={"kind": "keyid_capitals:link_signature", "nlinks": 1}))
    # (d) the layout carries the signatures of two owners, the caller supplies the key of one
    other_owner = rng.choice([k for k in ["ed0", "edp0", "ed1", "ec-a"] if k != owner])
    w4 = scen.sign_all(binpath, [(one, [owner, other_owner], "new"), (one, [other_owner, owner], "builder")], nproc=1)
    for w in w4:
        cases.append(scen.verify_case(w, keys, link_files, reps=64, meta={"kind": "layout_signed_by_two_owners_one_supplied", "nlinks": 1}))
    # control: everything in lower case verifies
    cases.append(scen.verify_case(wires[1], keys, link_files, reps=8, meta={"kind": "keyid_capitals:control", "nlinks": 1}))
    obs = common.run_batch(binpath, cases)
    for c, o in zip(cases, obs):
        d = judge_group(c, [o], res)
        if d is not None:
            res.note([c["meta"]["kind"], c["layout"][:80]], True,
                     cls=[f"kind:{c['meta']['kind']}", f"outcomes:{len(d)}", "accept_seen" if any(k[0] == "accept" for k in d) else "reject_only"],
                     n=len(o["runs"]))
    return res


def inspection_order(binpath, seed, sh, copies):
    """two inspections of one layout that meet in the working directory (the first leaves a file behind, the second needs
    it - or forbids it): they run in the order in which the layout lists them, on every run"""
    rng = common.rng_for(seed, PROP, 8500 + sh)
    W = scen.World(binpath)
    res = common.Result()
    reqs, plans = [], []
    for v in range(6):
        a, b = rng.sample(["unpack", "examine", "aa", "zz", "scan", "check-1", "Z", "b2"], 2)
        needs = v % 2 == 0
        first = scen.mk_inspection(a, ["sh", "-c", "printf ready > stage.txt"], [["ALLOW", "*"]], [["ALLOW", "*"]])
        if needs:
            second = scen.mk_inspection(b, ["sh", "-c", "test -f stage.txt"], [["REQUIRE", "stage.txt"], ["ALLOW", "*"]], [["ALLOW", "*"]])
        else:
            second = scen.mk_inspection(b, ["true"], [["DISALLOW", "stage.txt"], ["ALLOW", "*"]], [["ALLOW", "*"]])
        order = [first, second] if v % 4 < 2 else [second, first]
        layout = scen.mk_layout(W, ["ed4"], [scen.mk_step("build", 1, [W.kid("ed4")], [], [["ALLOW", "*"]], [["ALLOW", "*"]])], order)
        plans.append(len(reqs))
        reqs.append((layout, ["ed0"], "new"))
    reqs.append((pipeline.leaf_link("build", 0), ["ed4"], "new"))
    wires = scen.sign_all(binpath, reqs, nproc=1)
    files = {f"build.{W.pfx('ed4')}.link": scen.dumps(wires[-1])}
    cases, groups = [], []
    for b in plans:
        g = []
        for _ in range(copies):
            g.append(len(cases))
            cases.append(scen.verify_case(wires[b], [[W.kid("ed0"), W.pub("ed0")]], files, work_files={"pre.txt": "p"},
                                          meta={"kind": "inspections_share_workdir", "nlinks": 1}))
        groups.append(g)
    obs = common.run_batch(binpath, cases)
    for g in groups:
        d = judge_group(cases[g[0]], [obs[i] for i in g], res)
        if d is not None:
            res.note(["inspection_order", cases[g[0]]["layout"][:80]], True,
                     cls=["kind:inspections_share_workdir", f"outcomes:{len(d)}",
                          "inspection_order:" + ("accept" if any(k[0] == "accept" for k in d) else "reject")], n=len(g))
    return res


def short_id_collision(binpath, seed, sh, reps):
    """the layout's key table holds two different keys whose identifiers share their first eight hex digits (the part a
    link's file name carries); both are functionaries of a threshold-1 step, one of them files a link.  The same text,
    parsed and verified again and again (fresh maps each time): one verdict"""
    rng = common.rng_for(seed, PROP, 6500 + sh)
    W = scen.World(binpath)
    res = common.Result()
    ka, kb = rng.sample(["ed2", "ed3", "ed5", "edp1", "ed6"], 2)
    found = scen.colliding_descriptions(W, ka, kb)
    if found is None:
        res.inconclusive.append("no identifier-prefix collision found in the search budget")
        return res
    pub_a, id_a, pub_b, id_b = found
    cases = []
    for signer, sid in ((ka, id_a), (kb, id_b)):
        steps = [scen.mk_step("build", 1, [id_a, id_b], [], [["ALLOW", "*"]], [["ALLOW", "*"]])]
        layout = scen.mk_layout(W, [], steps, [], keys={id_a: pub_a, id_b: pub_b})
        wires = scen.sign_all(binpath, [(layout, ["ed0"], "new"), (pipeline.leaf_link("build", 0), [signer], "new")], nproc=1)
        l1 = copy.deepcopy(wires[1])
        l1["signatures"][0]["keyid"] = sid
        files = {f"build.{sid[:8]}.link": scen.dumps(l1)}
        cases.append(scen.verify_case(wires[0], [[W.kid("ed0"), W.pub("ed0")]], files, reps=reps, probe_ids=[id_a, id_b],
                                      meta={"kind": "key_ids_sharing_their_short_form", "nlinks": 2}))
    obs = common.run_batch(binpath, cases)
    for c, o in zip(cases, obs):
        d = judge_group(c, [o], res)
        if d is not None:
            res.note([c["meta"]["kind"], c["layout"][:80]], True,
                     cls=[f"kind:{c['meta']['kind']}", f"outcomes:{len(d)}", "accept_seen" if any(k[0] == "accept" for k in d) else "reject_only"], n=len(o["runs"]))
    return res


def main(ctx):
    res = common.Result()
    res.merge(key_forms_history(ctx.bin, ctx.seed))
    for p in common.pmap(concurrent_neighbour, [(ctx.bin, ctx.seed, s) for s in range(4 if not ctx.thorough else common.NPROC)]):
        res.merge(p)
    for p in common.pmap(history, [(ctx.bin, ctx.seed, s) for s in range(4 if not ctx.thorough else common.NPROC)]):
        res.merge(p)
    for p in common.pmap(short_id_collision, [(ctx.bin, ctx.seed, s, 64 if not ctx.thorough else 512) for s in range(2 if not ctx.thorough else 8)]):
        res.merge(p)
    for p in common.pmap(inspection_order, [(ctx.bin, ctx.seed, s, 12 if not ctx.thorough else 48) for s in range(2 if not ctx.thorough else common.NPROC)]):
        res.merge(p)
    for p in common.pmap(sublayout_order, [(ctx.bin, ctx.seed, s, 12 if not ctx.thorough else 48) for s in range(2 if not ctx.thorough else common.NPROC)]):
        res.merge(p)
    for p in common.pmap(keyid_spelling, [(ctx.bin, ctx.seed, s, 2500 if not ctx.thorough else 20000) for s in range(3 if not ctx.thorough else common.NPROC)]):
        res.merge(p)
    seen = set()
    for p in common.pmap(enum_order, [(ctx.bin, ctx.seed, s) for s in range(2 if not ctx.thorough else common.NPROC)]):
        seen |= set(p.extras.get("enumeration_orders_seen", []))
        res.merge(p)
    res.extras["enumeration_orders_seen"] = sorted(seen)
    n, reps, procs = (20, 24, 2) if not ctx.thorough else (320, 64, 8)
    mx = 0
    for p in common.pmap(shard, [(ctx.bin, ctx.seed, s, n, reps, procs) for s in range(common.NPROC)]):
        mx = max(mx, p.extras.get("max_distinct_iteration_orders_per_scenario", 0))
        res.merge(p)
    res.extras["max_distinct_iteration_orders_per_scenario"] = mx
    res.extras["repetitions_per_scenario"] = reps * procs
    return common.finish(
        PROP, ctx.tier, ctx.seed, res, t0=ctx.t0,
        rule="scenario kinds {differing surplus links with verdict-neutral rules (summary only), a DISALLOW / REQUIRE that "
             "only one surplus link triggers, MATCH from the next step against one variant, agreeing surplus, several "
             "failing steps, surplus differing sub-layouts}; each verified R times per process in P fresh processes; "
             "non-trivial = the surplus links differ; distinct by (layout, directory); evaluations = verifications",
        assumptions=["fresh HashMap instances get fresh SipHash keys (std RandomState), fresh processes fresh base keys"],
        required=["kind:summary_only", "kind:disallow", "kind:match_next", "kind:delegated_surplus", "kind:require",
                  "kind:multi_party_nested_dissent", "kind:same_key_two_descriptions", "kind:cosigned_by_outsider", "kind:link_named_like_another_step", "history:delegated:outcomes:1", "history:accept", "concurrent_neighbour:subject_ok:outcomes:1", "concurrent_neighbour:background_ok", "concurrent_neighbour:background_err", "key_forms_history:rsa:outcomes:1", "key_forms_history:ed:outcomes:1", "key_forms_history:ec:outcomes:1", "key_forms_history:accept", "history:failing_verifications_in_between",
                  "iteration_order_varied", "accept_seen", "kind:enumeration_order", "kind:sublayout_inspections_share_workdir", "kind:keyid_capitals:layout_signature",
                  "kind:keyid_capitals:key_table_member", "kind:keyid_capitals:control", "enumeration:symlink_listed_first",
                  "enumeration:symlink_listed_second"],
        min_evals=2000)
