"""C19 — attestation statements and predicates are self-consistent and round-trip.

Monitor over the public wrappers plus the guarded per-version acceptance lists: every accepted
document is accepted by exactly one format version, its canonical form parses back to an equal
value of the same version (timestamps included), a v0.1 statement's declared predicate type
names the predicate it carries, and statements built from link metadata carry the link's fields
over unchanged.
"""
import copy
import json

import attgen
import common
import docgen
import jsongen as jg
import scen

PROP = "C19"


def has_ts(doc):
    return any(p and p[-1] in ("buildStartedOn", "buildFinishedOn") for p in scen.leaf_paths(doc))


def strip_ts(doc):
    d = copy.deepcopy(doc)
    for p in list(scen.leaf_paths(d)):
        if p and p[-1] in ("buildStartedOn", "buildFinishedOn"):
            try:
                scen.del_at(d, p)
            except (KeyError, IndexError):
                pass
    return d


def judge(case, obs, res):
    m = case["meta"]
    if "parse" not in obs and "json_err" not in obs:
        res.inconclusive.append(f"executor failure: {str(obs)[:200]}")
        return None
    if "json_err" in obs:
        return "not-json"
    for k in ("accepting", "judge", "parse"):
        v = obs.get(k)
        if isinstance(v, dict) and "panic" in v:
            res.violate(f"panic:{k}:{v['panic']['loc'].rsplit(':', 1)[0]}", f"{case['kind']} handling panicked in {k}: {v['panic']['msg']}",
                        case, obs, "value or error")
            return "panic"
    acc = obs["accepting"]
    if len(acc) > 1:
        res.violate(f"accepted-by-several-versions:{'+'.join(acc)}", f"document accepted by {acc}", case, obs, "at most one")
    p = obs["parse"]
    if "ok" not in p:
        return "rejected"
    a = p["ok"]
    if acc != [a["version"]]:
        res.violate("reported-version-not-the-accepting-one", f"reported version {a['version']}, per-version parsers accepting: {acc}", case, obs, acc)
    if obs["judge"].get("ok") != a["version"]:
        res.violate("judge-disagrees-with-parse", f"judge_from_value says {obs['judge']}, parsed as {a['version']}", case, obs, None)
    if "canon" not in a:
        res.violate("canonical-form-fails", f"accepted document has no canonical form: {a.get('canon_err') or a.get('canon_panic')}", case, obs, "bytes")
    elif "reparse_err" in a:
        res.violate("canonical-form-does-not-parse-back" + (":timestamp" if m.get("ts") else ""),
                    f"canonical form is rejected by the parser: {a['reparse_err']}", case, obs, "equal value")
    else:
        if a["reparse_eq"] is not True:
            res.violate("canonical-form-parses-to-different-value" + (":timestamp" if m.get("ts") else ""),
                        "canonical form parses back to an unequal value", case, obs, "equal value")
        if a["reparse_version"] != a["version"]:
            res.violate("canonical-form-changes-version", f"{a['version']} -> {a['reparse_version']}", case, obs, a["version"])
        if m.get("ts") and a["reparse_eq"] is True:
            # equality of timestamps is by instant; additionally the canonical text must keep the instant exactly
            try:
                before = [scen.get_at(json.loads(case["text"]), q) for q in scen.leaf_paths(json.loads(case["text"])) if q and q[-1] in ("buildStartedOn", "buildFinishedOn")]
                cj = json.loads(a["canon"])
                after = [scen.get_at(cj, q) for q in scen.leaf_paths(cj) if q and q[-1] in ("buildStartedOn", "buildFinishedOn")]
                if sorted(map(instant, before)) != sorted(map(instant, after)):
                    res.violate("timestamp-changed-by-canonical-form", f"timestamps {before} became {after}", case, obs, before)
                else:
                    res.classes["timestamp_roundtrip_exact"] += 1
            except (ValueError, KeyError):
                pass
    if case["kind"] == "statement" and m.get("declared") is not None and m.get("actual") is not None:
        if a["version"] == attgen.S_V01 and m["declared"] != m["actual"]:
            res.violate("declared-predicate-type-mismatch-accepted",
                        f"v0.1 statement declares {m['declared']} but carries a {m['actual']} predicate and is accepted", case, obs, "error")
    return "accepted"


def instant(ts):
    """RFC 3339 -> (epoch seconds, nanoseconds) without float rounding"""
    import datetime
    import re
    mm = re.match(r"(\d{4})-(\d\d)-(\d\d)[Tt ](\d\d):(\d\d):(\d\d)(\.\d+)?([Zz]|[+-]\d\d:\d\d)$", ts)
    y, mo, d, h, mi, s = (int(mm.group(i)) for i in range(1, 7))
    frac = (mm.group(7) or ".0")[1:]
    ns = int((frac + "0" * 9)[:9])
    off = 0
    z = mm.group(8)
    if z not in "Zz":
        off = (1 if z[0] == "+" else -1) * (int(z[1:3]) * 3600 + int(z[4:6]) * 60)
    leap = 1 if s == 60 else 0
    base = datetime.datetime(y, mo, d, h, mi, min(s, 59), tzinfo=datetime.timezone.utc)
    # a leap second is kept distinguishable from the following second (as the library's data model does)
    return (int((base - datetime.datetime(1970, 1, 1, tzinfo=datetime.timezone.utc)).total_seconds()) - off, ns, leap)


def gen_cases(rng, n):
    cases = []

    def add(kind, doc, **meta):
        meta["ts"] = has_ts(doc)
        cases.append({"op": "stmt", "kind": kind, "text": json.dumps(doc, ensure_ascii=False), "meta": meta})
    for i in range(n):
        r = rng.random()
        if r < 0.2:
            add("statement", attgen.gen_naive(rng), cls="naive")
        elif r < 0.5:
            declared = rng.choice(attgen.PRED_TYPES + [None, None, None])
            doc, actual = attgen.gen_v01(rng, True, declared)
            add("statement", doc, cls="v01" + (":mismatch" if doc["predicateType"] != actual else ""),
                declared=doc["predicateType"], actual=actual)
        elif r < 0.6:
            doc, actual = attgen.gen_v01(rng, True)
            doc["predicateType"] = rng.choice(["https://slsa.dev/provenance/v1", "", "link", "https://in-toto.io/Link/v0.3"])
            add("statement", doc, cls="v01:unknown_type", declared=doc["predicateType"], actual=actual)
        elif r < 0.8:
            t, p = attgen.gen_predicate(rng, True)
            add("predicate", p, cls="pred:" + t.rsplit("/", 2)[-2] + t.rsplit("/", 1)[-1])
        else:
            base = rng.choice([attgen.gen_naive(rng), attgen.gen_v01(rng)[0], attgen.gen_predicate(rng)[1]])
            kind = "statement" if "_type" in base else "predicate"
            d, how = attgen.mutate(rng, base)
            add(kind, d, cls="mutated:" + how)
    # the free-form members of the provenance predicates (arguments, parameters, environment, buildConfig) holding JSON of any
    # shape instead of text: rejected - or accepted, and then with a canonical form that reads back, like any accepted document
    FREE = [{"timeout": 1.5}, [1e3], 0.25, {"a": {"b": [1, 2.5]}}, True, 7, {"x": "y"}, None, [], {}, "text", -0.0, 1e300, {"n": 12345678901234567890}]
    for i in range(max(8, n // 10)):
        t, pdoc = attgen.gen_predicate(rng, True)
        if rng.random() < 0.5:
            doc, _ = attgen.gen_v01(rng, True)
            if not isinstance(doc.get("predicate"), dict):
                continue
            target, kind = doc["predicate"], "statement"
        else:
            doc = target = pdoc
            kind = "predicate"
        spots = []

        def walk(o):
            if isinstance(o, dict):
                for k in o:
                    if k in ("arguments", "parameters", "environment", "buildConfig") and not isinstance(o[k], dict) or k in ("parameters", "buildConfig"):
                        spots.append((o, k))
                    walk(o[k])
            elif isinstance(o, list):
                for x in o:
                    walk(x)
        walk(target)
        if isinstance(target.get("recipe"), dict):
            spots += [(target["recipe"], k) for k in ("arguments", "environment")]
        if isinstance(target.get("invocation"), dict):
            spots += [(target["invocation"], k) for k in ("parameters", "environment")]
        if "builder" in target and "buildType" in target:
            spots.append((target, "buildConfig"))
        if not spots:
            continue
        o, k = rng.choice(spots)
        o[k] = copy.deepcopy(rng.choice(FREE))
        add(kind, doc, cls="free_form_member_holds_json")
    return cases


def shard(binpath, seed, sh, n):
    rng = common.rng_for(seed, PROP, sh)
    res = common.Result()
    cases = gen_cases(rng, n)
    obs = common.run_batch(binpath, cases, keys=False)
    twins = []
    for c, o in zip(cases, obs):
        r = judge(c, o, res)
        if r is None:
            continue
        m = c["meta"]
        cls = [m["cls"], f"{c['kind']}:{r}"]
        if m["ts"]:
            cls.append(f"with_timestamp:{r}")
        if any(f'"{a}": "' in c["text"] for a in attgen.OTHER_ALGS):
            cls.append(f"digest_under_other_algorithm_name:{r}")
        res.note([c["text"]], r == "accepted" or m["cls"].startswith(("v01:mismatch", "mutated")), cls=cls)
        if r == "rejected" and m["ts"] and not m["cls"].startswith("mutated"):
            t = copy.deepcopy(c)
            t["text"] = json.dumps(strip_ts(json.loads(c["text"])), ensure_ascii=False)
            t["meta"] = dict(m, twin_of=c["text"])
            twins.append(t)
    if twins:
        tobs = common.run_batch(binpath, twins, keys=False)
        for c, o in zip(twins, tobs):
            if "ok" in o.get("parse", {}):
                m = c["meta"]
                if m.get("declared") is not None and m["declared"] != m.get("actual"):
                    continue
                res.violate("timestamp-makes-document-unparseable",
                            "a document is accepted without its (well-formed RFC 3339) buildStartedOn/buildFinishedOn members "
                            "and rejected with them, so no value carrying a timestamp can exist",
                            {"op": "stmt", "kind": c["kind"], "text": m["twin_of"], "meta": {"ts": True, "cls": m["cls"]}}, o, "accepted")
    if sh == 0:
        for c, o in list(zip(cases, obs))[:3]:
            res.sample({"kind": c["kind"], "text": c["text"][:500], "class": c["meta"]["cls"], "accepting": o.get("accepting"),
                        "parse": ("ok " + o["parse"]["ok"]["version"]) if "ok" in o.get("parse", {}) else str(o.get("parse"))[:200]})
    return res


def after_refused_canonicalisation(binpath, res, seed, n):
    """history in one executor process (one thread): a canonicalisation that the library refuses part-way through a document
    (a non-integer number inside nested containers), then a statement / predicate: its canonical form is its own"""
    rng = common.rng_for(seed, PROP, 444)
    refused = ['{"measurements":[1,2,1.5]}', '[[["x",{"a":0.25}]]]', '{"a":{"b":{"c":[true,null,"s",1e-3]}}}', '{"k":"v","z":[1e300]}']
    docs = [c for c in gen_cases(rng, n * 3) if not c["meta"]["cls"].startswith(("mutated", "free_form"))][:n]
    batch = []
    for c in docs:
        batch.append({"op": "canon", "texts": [rng.choice(refused)], "meta": {"kind": "reject"}})
        batch.append(c)
    obs = common.run_batch(binpath, batch, keys=False)
    for c, o in zip(batch, obs):
        if c["op"] == "canon":
            if "res" not in o:
                res.inconclusive.append(f"executor failure: {str(o)[:200]}")
            elif "ok" in o["res"][0]:
                res.classes["after_refused_canonicalisation:set_up_was_accepted"] += 1
            else:
                res.classes["after_refused_canonicalisation:set_up_refused"] += 1
            continue
        r = judge(c, o, res)
        if r is not None:
            res.note(["after_refused", c["text"]], r == "accepted", cls=["after_refused_canonicalisation:" + r])


def from_meta(binpath, res, seed, n):
    rng = common.rng_for(seed, PROP, 333)
    cases = []
    for i in range(n):
        link = docgen.rand_link(rng, 0.5)
        if rng.random() < 0.5:
            cases.append({"op": "from_meta", "link": link, "ver": "naive", "meta": {}})
        else:
            attgen.PLAIN[0] = True        # a predicate value the library can hold (sha256 / sha512 digests only)
            try:
                t, p = attgen.gen_predicate(rng, False)
            finally:
                attgen.PLAIN[0] = False
            cases.append({"op": "from_meta", "link": link, "ver": "v01", "pred": p, "meta": {"ptype": t}})
    obs = common.run_batch(binpath, cases, keys=False)
    for c, o in zip(cases, obs):
        judge_from_meta(c, o, res)


def judge_from_meta(c, o, res):
    if "ok" not in o:
        if "panic" in o:
            res.violate("from-meta-panic", f"from_meta panicked: {o['panic']}", c, o, None)
        else:
            res.inconclusive.append(f"from_meta failed: {str(o)[:200]}")
        return
    st = json.loads(o["ok"])
    link = c["link"]
    res.note([c["link"], c["ver"]], True, cls="from_meta:" + c["ver"])
    if c["ver"] == "naive":
        want = {"name": link["name"], "materials": link["materials"], "products": link["products"], "env": link["environment"],
                "command": link["command"], "byproducts": link["byproducts"]}
        for k, v in want.items():
            if json.dumps(st.get(k), sort_keys=True) != json.dumps(v, sort_keys=True):
                res.violate(f"from-meta-changes:{k}", f"statement built from link metadata has {k}={json.dumps(st.get(k))[:150]}, "
                            f"link has {json.dumps(v)[:150]}", c, o, v)
        if st.get("_type") != attgen.S_NAIVE:
            res.violate("from-meta-type", f"naive statement has _type {st.get('_type')}", c, o, attgen.S_NAIVE)
    else:
        if json.dumps(st.get("subject"), sort_keys=True) != json.dumps(link["products"], sort_keys=True):
            res.violate("from-meta-changes:subject", "v0.1 statement's subject differs from the link's products", c, o, link["products"])
        if st.get("predicateType") != c["meta"]["ptype"]:
            res.violate("from-meta-predicate-type", f"predicateType {st.get('predicateType')} for a {c['meta']['ptype']} predicate", c, o, c["meta"]["ptype"])
        pj = json.dumps(st.get("predicate"), sort_keys=True)
        # the predicate is carried as given (absent optional members stay absent; env absent == null for Link v0.2)
        want = dict(c["pred"])
        if c["meta"]["ptype"] == attgen.P_LINK:
            want.setdefault("env", None)
        if c["meta"]["ptype"] == attgen.P_SLSA2 and "invocation" in want and "configSource" in want["invocation"]:
            want = copy.deepcopy(want)
            want["invocation"]["configSource"].setdefault("uri", None)
        if pj != json.dumps(want, sort_keys=True):
            res.violate("from-meta-changes:predicate", f"predicate changed: {pj[:200]} vs {json.dumps(want, sort_keys=True)[:200]}", c, o, want)


def replay(ctx, case, res):
    o = common.run_batch(ctx.bin, [case], keys=False)[0]
    if case["op"] == "from_meta":
        judge_from_meta(case, o, res)
    else:
        r = judge(case, o, res)
        if r == "rejected" and case["meta"].get("ts"):
            t = dict(case, text=json.dumps(strip_ts(json.loads(case["text"]))))
            o2 = common.run_batch(ctx.bin, [t], keys=False)[0]
            if "ok" in o2.get("parse", {}):
                res.violate("timestamp-makes-document-unparseable", "reproduced", case, o, None)


def exhaustive_optionals(binpath, res):
    """every subset of the optional members of each SLSA struct level (complete)"""
    import itertools
    import random
    rng = random.Random(1)
    cases = []
    full1 = {"builder": {"id": "b"}, "recipe": {"type": "t", "definedInMaterial": 0, "entryPoint": "e", "arguments": "a", "environment": "v"},
             "metadata": {"buildInvocationId": "i", "buildStartedOn": "2020-08-19T08:38:00Z", "buildFinishedOn": "2020-08-19T08:39:00.5+01:00",
                          "completeness": {"arguments": True, "environment": False, "materials": True}, "reproducible": False},
             "materials": [{"uri": "u", "digest": {"sha1": "00"}}]}
    full2 = {"builder": {"id": "b"}, "buildType": "t", "invocation": {"configSource": {"uri": "u", "digest": {"sha1": "00"}, "entryPoint": "e"},
                                                                       "parameters": "p", "environment": "v"},
             "buildConfig": "c", "metadata": full1["metadata"], "materials": full1["materials"]}

    def subsets(d, required):
        opt = [k for k in d if k not in required]
        for r in range(len(opt) + 1):
            for keep in itertools.combinations(opt, r):
                yield {k: v for k, v in d.items() if k in required or k in keep}
    docs = []
    for top in subsets(full1, ("builder",)):
        docs.append(top)
    for rec in subsets(full1["recipe"], ("type",)):
        docs.append(dict(full1, recipe=rec))
    for md in subsets(full1["metadata"], ()):
        docs.append(dict(full1, metadata=md))
        docs.append(dict(full2, metadata=md))
    for comp in subsets(full1["metadata"]["completeness"], ()):
        docs.append(dict(full1, metadata=dict(full1["metadata"], completeness=comp)))
    for top in subsets(full2, ("builder", "buildType")):
        docs.append(top)
    for inv in subsets(full2["invocation"], ()):
        docs.append(dict(full2, invocation=inv))
    for cs in subsets(full2["invocation"]["configSource"], ()):
        docs.append(dict(full2, invocation=dict(full2["invocation"], configSource=cs)))
    for d in docs:
        cases.append({"op": "stmt", "kind": "predicate", "text": json.dumps(d), "meta": {"cls": "optional_subset", "ts": has_ts(d)}})
        ptype = attgen.P_SLSA2 if "buildType" in d else attgen.P_SLSA1
        for declared in attgen.PRED_TYPES:
            s = {"_type": attgen.S_V01, "subject": {"a": scen.digest(1)}, "predicateType": declared, "predicate": d}
            cases.append({"op": "stmt", "kind": "statement", "text": json.dumps(s),
                          "meta": {"cls": "optional_subset_stmt", "ts": has_ts(d), "declared": declared, "actual": ptype}})
    obs = common.run_sharded(binpath, cases, keys=False)
    n = 0
    for c, o in zip(cases, obs):
        r = judge(c, o, res)
        if r:
            res.classes[f"optional_subset:{r}"] += 1
            n += 1
    res.evaluations += n
    res.extras["optional_field_subsets_enumerated"] = len(docs)


def main(ctx):
    res = common.Result()
    n = 500 if not ctx.thorough else 100000
    for p in common.pmap(shard, [(ctx.bin, ctx.seed, s, n) for s in range(common.NPROC)]):
        res.merge(p)
    from_meta(ctx.bin, res, ctx.seed, 400 if not ctx.thorough else 30000)
    after_refused_canonicalisation(ctx.bin, res, ctx.seed, 200 if not ctx.thorough else 5000)
    exhaustive_optionals(ctx.bin, res)
    res.extras["exhaustive_subspaces"] = ["every subset of optional members at each struct level of SLSA v0.1/v0.2 predicates, "
                                          "each also inside a v0.1 statement under every declared predicate type"]
    return common.finish(
        PROP, ctx.tier, ctx.seed, res, t0=ctx.t0,
        rule="documents generated from the wire schemas of naive/v0.1 statements and Link v0.2 / SLSA v0.1 / v0.2 predicates "
             "(random optional-field subsets, every (declared, actual) predicate-type pair, unknown type strings, RFC 3339 "
             "timestamps with offsets and fractions, hostile strings) plus schema-level mutations (extra member, dropped member, "
             "wrong type, malformed timestamp, other _type); non-trivial = accepted, or a mismatch/mutation case; distinct by text",
        assumptions=["the generator's wire schemas transliterate the structs' serde attributes", "the hook's per-version parsers are the library's own"],
        required=["after_refused_canonicalisation:accepted", "after_refused_canonicalisation:set_up_refused", "statement:accepted", "predicate:accepted", "statement:rejected", "predicate:rejected", "v01:mismatch", "naive",
                  "pred:provenancev0.1", "pred:provenancev0.2", "pred:Linkv0.2", "with_timestamp:accepted", "timestamp_roundtrip_exact",
                  "from_meta:naive", "from_meta:v01", "mutated:extra_field", "optional_subset:accepted"],
        min_evals=3000)
