#![no_main]
//! untrusted link/layout file bytes -> Metablock -> everything verification does with it
use in_toto::crypto::PublicKey;
use in_toto::models::{Metablock, MetadataWrapper};
use libfuzzer_sys::fuzz_target;

fuzz_target!(|data: &[u8]| {
    if let Ok(mb) = serde_json::from_slice::<Metablock>(data) {
        for s in &mb.signatures {
            let _ = s.key_id().prefix();
        }
        let _ = mb.metadata.to_bytes();
        let none: Vec<PublicKey> = Vec::new();
        let _ = mb.verify(1, none.iter());
        if let MetadataWrapper::Layout(l) = &mb.metadata {
            let keys: Vec<&PublicKey> = l.keys.values().collect();
            let _ = mb.verify(1, keys.into_iter());
        }
        let _ = serde_json::to_string(&mb);
    }
    let _ = MetadataWrapper::try_from_bytes(data);
});
