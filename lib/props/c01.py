"""C01 — only a layout validly signed by every trusted owner key is enforced.

Monitor: in_toto_verify over otherwise-valid scenarios, varying the owner-signer subset, the
caller's key map, and one post-signing action (single-field content edit or signature
corruption).  Ground truth is by construction; violation = Ok although some supplied key has
no intact signature over the content as it is on the wire (or the key map is empty/aliased).
"""
import copy
import json

import common
import crowd
import pipeline
import scen

PROP = "C01"
OWNERS = ["ed0", "edp0", "ec-a", "rsa-2048-a", "ed1", "rsa-2048-b512"]
SIG_EDITS = ["flip", "truncate", "empty", "relabel", "other_content", "drop", "zero", "swap", "dup", "resign_by_other", "resign_by_other", "sibling_scheme", "sibling_scheme", "sibling_scheme"]
# the same RSA key pair under its other signature scheme: another key (other id), whose signatures are not this key's
SIBLING = {"rsa-2048-a": "rsa-2048-a512", "rsa-2048-a512": "rsa-2048-a", "rsa-2048-b": "rsa-2048-b512", "rsa-2048-b512": "rsa-2048-b"}
OTHER_ID = "ab" * 32


def judge(case, obs, res):
    m = case["meta"]
    if scen.harness_failed(obs):
        res.inconclusive.append(f"executor failure: {str(obs)[:200]}")
        return None
    if obs.get("keymap_err"):
        res.inconclusive.append(f"caller key map could not be built: {obs['keymap_err']}")
        return None
    v = scen.verdicts(obs)
    ok = all(x == "ok" for x in v) and v
    exp = m["expect"]
    if m.get("mem_edit"):
        # the parsed layout was changed in memory through its public fields before it was handed to the verifier
        if obs.get("mem_edit_applied") and obs.get("mem_edit_changed_value"):
            exp = "reject"
            m["reason"] = f"the parsed layout was changed in memory after signing ({m['mem_edit']})"
            m["mem_edit_effective"] = True
    if m.get("content_edit") and obs.get("same_as_orig") is True:
        exp = "either"   # semantics-preserving edit (DESIGN §6): parsed value unchanged
        m["sempres"] = True
    if ok and exp == "reject":
        res.violate(f"accept:{m['reason']}", f"final-product verification succeeded although {m['reason']} "
                    f"(signers {m['signers']}, caller map {m['mapdesc']}, action {m['action']})", case, obs, "reject")
    if (not ok) and exp == "accept":
        res.overstrict += 1
        res.classes["positive_control_rejected"] += 1
        res.inconclusive.append(f"positive control rejected: {obs['runs'][0].get('e')} ({m['mapdesc']}, {m['action']})")
    return ok


def build(rng, W, i):
    """one scenario descriptor (before signing)"""
    nsign = rng.choice([0, 1, 1, 2, 2, 3])
    S = rng.sample(OWNERS, nsign)
    tolerant = i % 8 == 3
    if tolerant and not S:
        S = rng.sample(OWNERS, 1)
    layout, plan = pipeline.valid_layout(rng, W, readme=rng.choice(["", "readme", "multi\nline", 'q"\\', "C:\\nightly\\tools", "tab\there", "x\\u0041y", "a\\/b"]),
                                         nsteps=rng.choice([2, 3]) if tolerant else None, ruleset=4 if tolerant else None)
    links = pipeline.valid_links(rng, W, plan)
    return {"S": S, "layout": layout, "plan": plan, "links": links, "tolerant_match": tolerant}


_weird_cache = {}


def caller_map(rng, W, S):
    """returns (pairs [[id, pubjson]], keys_in_map(list of names), description, aliased?)"""
    outsiders = [k for k in OWNERS if k not in S]
    kinds = ["exact", "exact", "exact", "subset", "superset", "disjoint", "empty", "two_ids", "wrong_id", "plus_unknown_scheme_key"]
    kind = rng.choice(kinds)
    if kind == "exact":
        M = list(S)
    elif kind == "subset":
        M = rng.sample(S, rng.randrange(1, len(S))) if len(S) > 1 else list(S)
    elif kind == "superset":
        M = list(S) + rng.sample(outsiders, 1)
    elif kind == "disjoint":
        M = rng.sample(outsiders, rng.choice([1, 2]))
    elif kind == "empty":
        M = []
    else:
        M = list(S)
    pairs = [[W.kid(k), W.pub(k)] for k in M]
    aliased = False
    if kind == "plus_unknown_scheme_key":
        # an additional trusted key whose declared scheme the library does not know: it cannot have signed anything
        if "w" not in _weird_cache:
            _weird_cache["w"] = scen.unknown_scheme_keys(W.bin)
        if _weird_cache["w"]:
            wk = rng.choice(_weird_cache["w"])
            pairs.append([wk["keyid"], wk["pub"]])
            M = M + ["<unknown-scheme key>"]
    if kind == "two_ids" and M:
        # the same key once more under another identifier; its description may even declare that identifier
        p2 = W.pub(M[0])
        if rng.random() < 0.6:
            p2["keyid"] = OTHER_ID
        pairs.append([OTHER_ID, p2])
        aliased = True
    if kind == "wrong_id" and M:
        pairs[0][0] = "cd" * 32
    return pairs, M, kind, aliased


def shard(binpath, seed, sh, n):
    rng = common.rng_for(seed, PROP, sh)
    W = scen.World(binpath)
    res = common.Result()
    scs = [build(rng, W, i) for i in range(n)]
    reqs, idx = [], []
    for sc in scs:
        base = len(reqs)
        reqs.append((sc["layout"], sc["S"], rng.choice(["new", "builder"])))
        other = copy.deepcopy(sc["layout"])
        other["readme"] += " (other)"
        reqs.append((other, sc["S"], "new"))
        reqs.append((sc["layout"], sc["S"], "builder"))       # second, independent signatures over the same content
        reqs.append((sc["layout"], [SIBLING[k] for k in sc["S"] if k in SIBLING], "new"))
        for l in sc["links"]:
            reqs.append((l["doc"], l["signers"], "new"))
        idx.append(base)
    wires = scen.sign_all(binpath, reqs, nproc=1)
    cases = []
    for sc, base in zip(scs, idx):
        lw, other_w, again_w = wires[base], wires[base + 1], wires[base + 2]
        sibling_w = wires[base + 3]
        link_w = wires[base + 4: base + 4 + len(sc["links"])]
        files = pipeline.assemble(W, lw, list(zip(sc["links"], link_w)))
        S = sc["S"]
        pairs, M, mapdesc, aliased = caller_map(rng, W, S)
        action = rng.choice(["none", "none", "content", "content", "sig", "sig"])
        if sc.get("tolerant_match"):
            # a layout whose MATCH rules are followed by a tolerant tail, edited in the optional prefix of one MATCH
            # rule only, under the exact key map: nothing but the owner signatures stands between the edit and success
            pairs, M, mapdesc, aliased = [[W.kid(k), W.pub(k)] for k in S], list(S), "exact", False
            action = "content"
        if not S:
            action = rng.choice(["none", "content"])
        wire = copy.deepcopy(lw)
        broken = set()      # signer names whose signature is no longer intact
        content_edit = None
        desc = action
        if action == "content":
            edits = list(scen.single_edits(wire["signed"], rng, None))
            special = [e for e in edits if e[0].startswith(("respell@", "match_prefix@", "respell_key@", "tagged_spelling@", "add_member@", "insert_empty@", "time_shift@"))]
            mp = [e for e in edits if e[0].startswith("match_prefix@")]
            if sc.get("tolerant_match") and mp:
                content_edit, newdoc = rng.choice(mp)
                wire["signed"] = newdoc
                broken = set(S)
                desc = "content:" + content_edit
            elif edits:
                content_edit, newdoc = rng.choice(special) if special and rng.random() < 0.35 else rng.choice(edits)
                wire["signed"] = newdoc
                broken = set(S)
                desc = "content:" + content_edit
            else:
                action = "none"
        elif action == "sig":
            kind = rng.choice(SIG_EDITS)
            sigs = wire["signatures"]
            j = rng.randrange(len(sigs))
            name = next(k for k in S if W.kid(k) == sigs[j]["keyid"])
            if kind == "swap":
                if len(sigs) >= 2:
                    j2 = (j + 1) % len(sigs)
                    sigs[j]["sig"], sigs[j2]["sig"] = sigs[j2]["sig"], sigs[j]["sig"]
                    broken = {name, next(k for k in S if W.kid(k) == sigs[j2]["keyid"])}
                else:
                    kind = "flip"
            if kind == "resign_by_other":
                # the entry of one signer is replaced by a second, independently made signature of ANOTHER signer
                donors = [k for k in S if k != name]
                if donors:
                    donor = rng.choice(donors)
                    sigs[j] = copy.deepcopy(next(s_ for s_ in again_w["signatures"] if s_["keyid"] == W.kid(donor)))
                    broken = {name}
                else:
                    kind = "flip"
            if kind == "sibling_scheme":
                rsa = [i for i, s_ in enumerate(sigs) if next(k for k in S if W.kid(k) == s_["keyid"]) in SIBLING]
                if rsa:
                    j = rng.choice(rsa)
                    name = next(k for k in S if W.kid(k) == sigs[j]["keyid"])
                    sigs[j]["sig"] = next(s_["sig"] for s_ in sibling_w["signatures"] if s_["keyid"] == W.kid(SIBLING[name]))
                    broken = {name}
                else:
                    kind = "flip"
            if kind == "dup":
                sigs.append(copy.deepcopy(sigs[j]))
            elif kind == "relabel":
                outs = [k for k in OWNERS if k not in S]   # a label already present would make the entry list ambiguous
                sigs[j]["keyid"] = W.kid(rng.choice(outs))
                broken = {name}
            elif kind == "other_content":
                sigs[j]["sig"] = next(s["sig"] for s in other_w["signatures"] if s["keyid"] == W.kid(name))
                broken = {name}
            elif kind == "drop":
                del sigs[j]
                broken = {name}
            elif kind in ("flip", "truncate", "empty", "zero"):
                b = bytearray(bytes.fromhex(sigs[j]["sig"]))
                if kind == "flip":
                    pos = rng.randrange(len(b) * 8)
                    b[pos // 8] ^= 1 << (pos % 8)
                elif kind == "truncate":
                    b = b[:rng.randrange(0, len(b))]
                elif kind == "empty":
                    b = bytearray()
                else:
                    b = bytearray(len(b))
                sigs[j]["sig"] = bytes(b).hex()
                broken = {name}
            desc = "sig:" + kind
        if mapdesc == "two_ids" and M and wire["signatures"] and rng.random() < 0.7:
            # ... and the signature list carries a copy of that key's signature under the second identifier
            own = [s_ for s_ in wire["signatures"] if s_["keyid"] == W.kid(M[0])]
            if own:
                wire["signatures"].append(dict(own[0], keyid=OTHER_ID))
        if mapdesc == "plus_unknown_scheme_key" and len(pairs) > len(S):
            wire["signatures"].append({"keyid": pairs[-1][0], "sig": rng.choice(["ab" * 64, "00", wire["signatures"][0]["sig"] if wire["signatures"] else "cd" * 64])})
        # ground truth
        if not pairs:
            expect, reason = "reject", "the caller supplied no trusted key"
        elif aliased:
            expect, reason = "reject", "one key was supplied under two identifiers"
        elif any(k not in S for k in M):
            expect, reason = "reject", "a supplied key never signed the layout"
        elif any(k in broken for k in M):
            expect = "reject"
            reason = ("the layout content was changed after signing" if content_edit
                      else "a supplied key's signature was corrupted/removed (" + desc + ")")
        elif mapdesc == "wrong_id":
            expect, reason = "either", ""
        else:
            expect, reason = "accept", ""
        meta = {"signers": S, "map": M, "mapdesc": mapdesc, "action": desc, "expect": expect, "reason": reason,
                "content_edit": content_edit, "keytypes": sorted({k.split("-")[0].rstrip("0123456789") for k in S})}
        # the caller may ask for the summary under a name: the owner-signature gate is the same
        sn = rng.choice([None, None, "final", "", "rel-1"])
        meta["summary_name"] = sn is not None
        case = scen.verify_case(wire, pairs, files, orig_layout=lw if content_edit else None, meta=meta, step_name=sn)
        if action == "none" and expect == "accept" and rng.random() < 0.45:
            meta["mem_edit"] = case["mem_edit"] = rng.choice(["rekey_swap", "rekey_swap", "rekey_alias", "readme", "drop_step", "expires"])
        if action != "none" and rng.random() < 0.5:
            # history: the layout as it was signed is verified first, in the same process and with the same caller key
            # objects; what these keys have accepted before must not carry over to the edited / re-signed document
            case["pre_layouts"] = [scen.dumps(lw)]
            meta["after_genuine"] = True
        cases.append(case)
    obs = common.run_batch(binpath, cases)
    for c, o in zip(cases, obs):
        m = c["meta"]
        ok = judge(c, o, res)
        if ok is None:
            continue
        cls = [f"map:{m['mapdesc']}", f"action:{m['action'].split('@')[0].split(':')[0]}" + (":" + m['action'].split(':')[1].split('@')[0] if ':' in m['action'] else ""),
               f"expect:{m['expect']}", "observed:" + ("accept" if ok else "reject"), f"nsigners:{len(m['signers'])}"]
        cls += ["ownerkey:" + t for t in m["keytypes"]]
        if m.get("sempres"):
            cls.append("semantics_preserving_edit")
        if m.get("summary_name"):
            cls.append("summary_name_given:" + ("accept" if ok else "reject"))
        if m.get("mem_edit"):
            cls.append(f"in_memory_edit:{m['mem_edit']}:" + ("effective" if m.get("mem_edit_effective") else "not_applicable"))
        if m.get("after_genuine"):
            cls.append("history:genuine_layout_verified_first:" + str((o.get("pre_runs") or ["?"])[0] == "ok"))
        if m["expect"] == "accept" and ok:
            cls += ["positive_control_accepted"] + ["positive:" + t for t in m["keytypes"]]
        nontrivial = bool(m["signers"]) or bool(m["map"])
        res.note([c["layout"], c["caller_keys"]], nontrivial, cls=cls)
    if sh == 0:
        for c, o in list(zip(cases, obs))[:3]:
            res.sample({"meta": c["meta"], "verdicts": scen.verdicts(o), "error": o.get("runs", [{}])[0].get("e")})
    return res


def expiry_moved(binpath, seed):
    """layouts that expire around a New Year (where calendar year and week-numbering year part), in leap years, at month
    ends: the expiry moved by exactly one year / month / day after signing is a change of content like any other"""
    rng = common.rng_for(seed, PROP, 5100)
    W = scen.World(binpath)
    res = common.Result()
    instants = scen.year_edge_instants() + ["2028-02-29T00:00:00Z", "2031-03-31T23:59:59Z", "2040-12-31T23:59:59Z", "2027-06-15T12:00:00Z"]
    plans, reqs = [], []
    for t in instants:
        layout, plan = pipeline.valid_layout(rng, W, nsteps=1, expires=t)
        links = pipeline.valid_links(rng, W, plan)
        plans.append((t, len(reqs), links))
        reqs.append((layout, ["ed0"], "new"))
        for l in links:
            reqs.append((l["doc"], l["signers"], "new"))
    wires = scen.sign_all(binpath, reqs, nproc=1)
    cases = []
    keys = [[W.kid("ed0"), W.pub("ed0")]]
    now_year = 2027
    for t, base, links in plans:
        lw = wires[base]
        files = pipeline.assemble(W, lw, list(zip(links, wires[base + 1: base + 1 + len(links)])))
        cases.append(scen.verify_case(lw, keys, files, meta={"expect": "accept", "t": t, "to": t}))
        for alt in scen.time_shifts(lw["signed"]["expires"]):
            if int(alt[:4]) < now_year:
                continue                      # an expiry in the past is refused for that reason
            w = copy.deepcopy(lw)
            w["signed"]["expires"] = alt
            cases.append(scen.verify_case(w, keys, files, orig_layout=lw, meta={"expect": "reject", "t": t, "to": alt}))
    obs = common.run_sharded(binpath, cases)
    for c, o in zip(cases, obs):
        m = c["meta"]
        if scen.harness_failed(o):
            res.inconclusive.append(f"executor failure: {str(o)[:200]}")
            continue
        ok = o["runs"][0]["v"] == "ok"
        if ok and m["expect"] == "reject":
            res.violate("accept:expiry_moved_after_signing", f"final-product verification succeeded although the layout's expiry was moved from {m['t']} to {m['to']} "
                        f"after signing (the owner signed {m['t']})", c, o, "reject")
        if not ok and m["expect"] == "accept":
            res.inconclusive.append(f"expiry_moved positive control rejected: {o['runs'][0].get('e')} ({m['t']})")
        res.note([c["layout"]], True, cls=["expiry_moved:" + ("control" if m["expect"] == "accept" else "moved"), "expiry_moved:" + ("accepted" if ok else "rejected")])
    return res


def main(ctx):
    res = common.Result()
    n = 150 if not ctx.thorough else 2500
    for p in common.pmap(shard, [(ctx.bin, ctx.seed, s, n) for s in range(common.NPROC)]):
        res.merge(p)
    res.merge(expiry_moved(ctx.bin, ctx.seed))
    for p in common.pmap(crowd.owners, [(ctx.bin, ctx.seed, PROP, s, 7 if not ctx.thorough else 42) for s in range(4 if not ctx.thorough else common.NPROC)]):
        res.merge(p)
    return common.finish(
        PROP, ctx.tier, ctx.seed, res, t0=ctx.t0,
        rule="otherwise-valid scenarios (1-3 steps, valid links present) x owner-signer subsets of 6 keys of all types "
             "(incl. none) x caller key maps {exact, subset, superset, disjoint, empty, one key under two ids, right key "
             "under a wrong id} x one post-signing action {none; one single-field edit drawn from the complete list of "
             "leaves/containers of the signed layout; signature flip/truncate/empty/zero/relabel/other-content/drop/swap/"
             "dup}; non-trivial = at least one signer or one supplied key; distinct by SHA-256 of (wire layout, key map)",
        assumptions=["signature validity ground truth is by construction", "value equality for 'semantics-preserving' is the library's PartialEq"],
        required=["expiry_moved:control", "expiry_moved:moved", "expiry_moved:accepted", "expiry_moved:rejected", "action:sig:sibling_scheme", "crowd:owners:missing", "crowd:owners:flipped", "crowd:owners:foreign", "crowd:owners:all", "crowd:size:48", "crowd:size:33", "crowd:accepted", "positive_control_accepted", "positive:ed", "positive:ec", "positive:rsa", "map:empty", "map:two_ids",
                  "map:superset", "map:disjoint", "map:subset", "map:plus_unknown_scheme_key", "action:content:set", "action:sig:flip", "action:sig:relabel",
                  "action:sig:other_content", "action:sig:drop", "action:sig:resign_by_other", "expect:reject", "observed:reject", "history:genuine_layout_verified_first:True",
                  "summary_name_given:accept", "summary_name_given:reject", "in_memory_edit:rekey_swap:effective", "in_memory_edit:readme:effective"],
        min_evals=500)
