"""C05 — any meaningful change to signed content invalidates its signatures.

Monitors: (a) every single-field edit of a signed layout/link that changes the parsed value must
make the kept signatures fail; (b) no two unequal JSON values share a canonical encoding;
(c) no two unequal metadata values share their signed bytes — observed without a hook through
deterministic ed25519 signatures (equal signature <=> equal signed bytes).
"""
import copy
import itertools
import json

import common
import docgen
import jsongen as jg
import scen

PROP = "C05"


def judge(case, obs, res):
    m = case.get("meta", {})
    if m.get("kind") != "edit":
        return None
    if obs.get("parse") != "ok":
        return "unparseable"
    same = obs.get("same_as_orig")
    ver = obs.get("verify")
    if isinstance(ver, dict) and "panic" in ver:
        res.violate("verify-panic", f"verification panicked: {ver['panic']}", case, obs, "err")
        return "panic"
    if same is True:
        return "semantics-preserving"
    if ver == "ok":
        field = m["edit"].split("@")[1] if "@" in m["edit"] else m["edit"]
        # signature: the kind of field, without indices
        fsig = "/".join("*" if p.isdigit() or len(p) == 64 else p for p in field.split("/"))
        res.violate(f"edit-keeps-signature:{m['doc_is']}:{fsig}",
                    f"a {m['doc_is']} was edited ({m['edit']}), parses to a different value, and the old "
                    f"signatures still verify", case, obs, "err")
        return "accepted"
    return "rejected"


def expiry_edits(signed):
    if signed.get("_type") != "layout":
        return
    import datetime
    if signed["expires"].endswith(":60Z"):
        # a leap second: the neighbouring seconds are different instants
        for alt in (signed["expires"][:-4] + ":59Z", signed["expires"][:-4] + ":58Z"):
            x = copy.deepcopy(signed)
            x["expires"] = alt
            yield ("set@/expires(leap second -> %s)" % alt[-4:-1], x)
        return
    if signed["expires"].endswith(":59Z") and signed["expires"][11:16] == "23:59":
        x = copy.deepcopy(signed)
        x["expires"] = signed["expires"][:-4] + ":60Z"
        yield ("set@/expires(-> leap second)", x)
    t = datetime.datetime.strptime(signed["expires"], "%Y-%m-%dT%H:%M:%SZ")
    for d in (-1, 1, 60, -3600, 86400):
        try:
            t2 = t + datetime.timedelta(seconds=d)
        except OverflowError:
            continue
        if t2.year < 1000:
            continue
        x = copy.deepcopy(signed)
        x["expires"] = scen.iso(t2)
        yield (f"set@/expires{d:+d}s", x)


def shard_edits(binpath, seed, sh, ndocs, per_doc):
    rng = common.rng_for(seed, PROP, sh)
    W = scen.World(binpath)
    res = common.Result()
    docs = []
    for i in range(ndocs):
        d = docgen.rand_link(rng, 0.3) if i % 2 else docgen.rand_layout(rng, W, 0.3)
        docs.append(d)
    signers = [rng.sample(common.FAST_KEYS, rng.choice([1, 2])) for _ in docs]
    wires = scen.sign_all(binpath, [(d, s, "new") for d, s in zip(docs, signers)], nproc=1)
    cases = []
    for d, s, w in zip(docs, signers, wires):
        orig = json.dumps(w)
        auth = [W.pub(k) for k in s]
        edits = list(scen.single_edits(w["signed"], rng, per_doc)) + list(expiry_edits(w["signed"]))
        for desc, newdoc in edits:
            w2 = {"signatures": w["signatures"], "signed": newdoc}
            cases.append({"op": "block", "text": json.dumps(w2), "orig": orig, "threshold": len(s), "auth": auth,
                          "meta": {"kind": "edit", "edit": desc, "doc_is": d["_type"]}})
        # control: the unedited block verifies
        cases.append({"op": "block", "text": orig, "orig": orig, "threshold": len(s), "auth": auth,
                      "meta": {"kind": "control", "doc_is": d["_type"]}})
    obs = common.run_batch(binpath, cases)
    for c, o in zip(cases, obs):
        if any(k in o for k in ("crash", "watchdog", "missing")):
            res.inconclusive.append(f"executor failure: {str(o)[:200]}")
            continue
        m = c["meta"]
        if m["kind"] == "control":
            if o.get("verify") == "ok":
                res.classes["control_verified"] += 1
            else:
                res.inconclusive.append(f"control block did not verify: {str(o)[:200]}")
            continue
        r = judge(c, o, res)
        field = m["edit"].split("@")[1]
        top = field.split("/")[1] if "/" in field else field
        res.note([c["text"]], r in ("rejected", "accepted"), cls=[f"edit:{r}", f"{m['doc_is']}:{top}"])
    if sh == 0:
        for c, o in list(zip(cases, obs))[:2]:
            res.sample({"edit": c["meta"], "verify": o.get("verify"), "same_as_orig": o.get("same_as_orig")})
    return res


ALPHA = ["\\", "n", "\n", '"', ",", "\t"]
FIELDS = ["name", "command", "stdout", "extra_key", "extra_val", "env_key", "env_val", "material_path"]
LAYOUT_FIELDS = ["readme", "step_name", "pattern", "expected_command", "run"]


def place(field, s):
    """a link with string s in the named field class"""
    l = scen.mk_link("step", {"m": scen.digest(1)}, {"p": scen.digest(2)}, ["c"], {"stdout": "o", "return-value": 0}, {"E": "v"})
    if field == "name":
        l["name"] = s
    elif field == "command":
        l["command"] = ["c", s]
    elif field == "stdout":
        l["byproducts"]["stdout"] = s
    elif field == "extra_key":
        if s in ("stdout", "stderr", "return-value"):
            return None
        l["byproducts"][s] = "v"
    elif field == "extra_val":
        l["byproducts"]["k"] = s
    elif field == "env_key":
        l["environment"] = {s: "v"}
    elif field == "env_val":
        l["environment"] = {"E": s}
    elif field == "material_path":
        l["materials"] = {s: scen.digest(1)}
    return l


def place_layout(W, field, s):
    st = scen.mk_step("s", 1, [], ["c"], [["ALLOW", "*"]], [])
    ins = scen.mk_inspection("i", ["r"], [], [])
    if field == "step_name":
        st["name"] = s
    elif field == "pattern":
        st["expected_materials"] = [["ALLOW", s]]
    elif field == "expected_command":
        st["expected_command"] = ["c", s]
    elif field == "run":
        ins["run"] = ["r", s]
    return scen.mk_layout(W, [], [st], [ins], "2030-01-01T00:00:00Z", s if field == "readme" else "r")


def collisions(binpath, res, maxlen, fields, lfields, seed):
    """near-collision families: every string over ALPHA up to maxlen in each field class; signed with
    one fixed ed25519 key; signature -> value dictionary (all pairs are thereby compared)"""
    W = scen.World(binpath)
    strings = ["".join(x) for k in range(maxlen + 1) for x in itertools.product(ALPHA, repeat=k)]
    rng = common.rng_for(seed, PROP, 777)
    strings += [jg.rand_string(rng, 6) for _ in range(300)]
    # key/value and array-boundary confusions
    confus = [scen.mk_link("s", {}, {}, ["a", "b"]), scen.mk_link("s", {}, {}, ['a","b']),
              scen.mk_link("s", {}, {}, ["a,b"]), scen.mk_link("s", {}, {}, ["a", "b", ""]),
              scen.mk_link("s", {}, {}, [], {"a": "b"}), scen.mk_link("s", {}, {}, [], {'a":"b': ""}),
              scen.mk_link("s", {}, {}, [], {"a": 'b","c":"d'}), scen.mk_link("s", {}, {}, [], {"a": "b", "c": "d"}),
              scen.mk_link("s", {}, {}, [], {}, {}), scen.mk_link("s", {}, {}, [], {}, None),
              scen.mk_link("s", {"a": scen.digest(1)}, {}), scen.mk_link("s", {}, {"a": scen.digest(1)}),
              scen.mk_link("s", {}, {}, [], {"return-value": 1}), scen.mk_link("s", {}, {}, [], {"return-value": "1"} if False else {"x": "1"})]
    docs = []
    for f in fields:
        for s in strings:
            d = place(f, s)
            if d is not None:
                docs.append((f, d))
    for f in lfields:
        for s in strings:
            docs.append((f, place_layout(W, f, s)))
    docs += [("confusion", d) for d in confus]
    reqs = [(d, ["ed0"], "new") for _, d in docs]
    wires = scen.sign_all(binpath, reqs)
    by_sig = {}
    for (f, d), w in zip(docs, wires):
        sig = w["signatures"][0]["sig"]
        val = json.dumps(w["signed"], sort_keys=True, ensure_ascii=False)
        prev = by_sig.get(sig)
        if prev is not None and prev[1] != val:
            res.violate(f"signed-bytes-collision:{f}", f"two unequal metadata values have the same signed bytes "
                        f"(equal deterministic ed25519 signature): {prev[1][:200]} vs {val[:200]}",
                        {"op": "sign", "signed": d, "signers": ["ed0"], "via": "new", "meta": {"kind": "collision", "other": json.loads(prev[1])}},
                        {"sig": sig}, "distinct signed bytes")
        by_sig[sig] = (f, val)
        res.classes[f"collision_family:{f}"] += 1
    res.evaluations += len(docs)
    for (f, d) in docs[::37]:
        res.distinct.add(common.h8(d))
    res.extras["signed_bytes_dictionary_entries"] = len(by_sig)
    # (b) canonical JSON injectivity on the same strings as values and keys
    texts = [json.dumps([s]) for s in strings] + [json.dumps({s: 0}) for s in strings] + \
            [json.dumps(x) for x in (["a", "b"], ['a","b'], ["a,b"], {"a": "b"}, {'a":"b': ""}, [[]], [[], []], [{}], {}, [""], [], [0], ["0"], [None], ["null"], [True], ["true"])] + \
            ['[%s,"a"]' % n_ for n_ in NUMS] + ['[%s,"b"]' % n_ for n_ in NUMS] + ['{"a":%s,"b":"x"}' % n_ for n_ in NUMS] + \
            ['{"a":%s,"b":"y"}' % n_ for n_ in NUMS] + ['[%s]' % n_ for n_ in NUMS] + ['[[%s],1]' % n_ for n_ in NUMS] + ['[[%s],2]' % n_ for n_ in NUMS]
    B = 2000
    cases = [{"op": "canon", "texts": texts[i:i + B]} for i in range(0, len(texts), B)]
    obs = common.run_batch(binpath, cases, keys=False)
    seen = {}
    k = 0
    for c, o in zip(cases, obs):
        if "res" not in o:
            res.inconclusive.append("executor failure in canon collisions")
            return
        for t, r in zip(c["texts"], o["res"]):
            if "ok" in r:
                # identity of a value: numbers by their exact mathematical value
                from fractions import Fraction
                v = json.dumps(json.loads(t, parse_float=lambda x: "#" + str(Fraction(x)), parse_int=lambda x: "#" + str(Fraction(x))), sort_keys=True)
                prev = seen.get(r["ok"])
                if prev is not None and prev != v:
                    res.violate("canonical-json-collision", f"two unequal JSON values share the canonical encoding {r['ok'][:100]!r}",
                                {"op": "canon", "texts": [t], "meta": {"kind": "canon"}}, r, "distinct")
                seen[r["ok"]] = v
                k += 1
    res.evaluations += k
    res.classes["canonical_encodings_compared"] += k
    res.extras["canonical_dictionary_entries"] = len(seen)


NUMS = ["0", "1", "-1", "1.5", "0.1", "1e2", "100", "1.0", "-0", "0.0", "18446744073709551615", "18446744073709551616",
        "-9223372036854775808", "-9223372036854775809", "1E400", "2.5e-3", "123456789012345678901234567890"]


def replay(ctx, case, res):
    if case.get("op") == "sign":
        other = case["meta"]["other"]
        w = scen.sign_all(ctx.bin, [(case["signed"], ["ed0"], "new"), (other, ["ed0"], "new")])
        if w[0]["signatures"][0]["sig"] == w[1]["signatures"][0]["sig"] and w[0]["signed"] != w[1]["signed"]:
            res.violate("signed-bytes-collision", "collision reproduced", case, None, None)
    elif case.get("op") == "block":
        o = common.run_batch(ctx.bin, [case])[0]
        judge(case, o, res)


def main(ctx):
    res = common.Result()
    nd, per = (20, 40) if not ctx.thorough else (400, 120)
    for p in common.pmap(shard_edits, [(ctx.bin, ctx.seed, s, nd, per) for s in range(common.NPROC)]):
        res.merge(p)
    if ctx.thorough:
        collisions(ctx.bin, res, 4, FIELDS, LAYOUT_FIELDS, ctx.seed)
    else:
        collisions(ctx.bin, res, 4, ["stdout", "extra_key", "command"], ["readme"], ctx.seed)
    res.extras["exhaustive_subspaces"] = ["all strings of length <= 4 over {backslash, n, LF, quote, comma, TAB} "
                                          "(1555 strings) in the listed field classes: pairwise distinct signed bytes"]
    return common.finish(
        PROP, ctx.tier, ctx.seed, res, t0=ctx.t0,
        rule="(a) single-field edits (every leaf/container of the signed document is enumerated, then sampled to the "
             "per-document budget; plus expiry ±1s..±1d) of signed random layouts and links, signatures kept; "
             "non-trivial = the edited document parses to a value different from the original; (b,c) near-collision "
             "string families in each string-bearing field class, compared pairwise through dictionaries",
        assumptions=["ed25519 signatures are deterministic, so equal signatures <=> equal signed bytes for one key",
                     "value equality is the library's own PartialEq on parsed metadata (same_as_orig)"],
        required=["edit:rejected", "control_verified", "layout:keys", "layout:steps", "layout:expires", "link:materials",
                  "link:byproducts", "link:command", "collision_family:stdout", "canonical_encodings_compared"],
        min_evals=2000)
