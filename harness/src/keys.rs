//! key registry: named private keys built from the specs in the batch header

use std::collections::BTreeMap;

use in_toto::crypto::{PrivateKey, SignatureScheme};
use ring::signature::{Ed25519KeyPair, KeyPair};
use serde_json::{json, Value};

use crate::util::{hex, unhex};

#[derive(Default)]
pub struct Registry {
    pub keys: BTreeMap<String, PrivateKey>,
    pub errors: BTreeMap<String, String>,
}

pub fn scheme_of(s: &str) -> SignatureScheme {
    serde_json::from_value::<SignatureScheme>(json!(s))
        .unwrap_or_else(|_| SignatureScheme::Unknown(s.to_string()))
}

/// PKCS#8 v2 (RFC 5958) document for an ed25519 seed, the form ring emits and
/// `PrivateKey::from_pkcs8` requires.
pub fn ed25519_pkcs8_v2(seed: &[u8], public: &[u8]) -> Vec<u8> {
    let mut v = vec![
        0x30, 0x51, 0x02, 0x01, 0x01, 0x30, 0x05, 0x06, 0x03, 0x2b, 0x65,
        0x70, 0x04, 0x22, 0x04, 0x20,
    ];
    v.extend_from_slice(seed);
    v.extend_from_slice(&[0x81, 0x21, 0x00]);
    v.extend_from_slice(public);
    v
}

pub fn ed25519_public(seed: &[u8]) -> Vec<u8> {
    Ed25519KeyPair::from_seed_unchecked(seed)
        .expect("harness: ed25519 seed")
        .public_key()
        .as_ref()
        .to_vec()
}

impl Registry {
    pub fn load(&mut self, specs: &Value) {
        let specs = match specs.as_object() {
            Some(m) => m,
            None => return,
        };
        for (name, spec) in specs {
            let kind = spec["kind"].as_str().unwrap_or("");
            let res = match kind {
                "ed25519" => {
                    let seed = unhex(spec["seed"].as_str().unwrap());
                    let public = ed25519_public(&seed);
                    match spec["via"].as_str().unwrap_or("raw") {
                        "pkcs8" => PrivateKey::from_pkcs8(
                            &ed25519_pkcs8_v2(&seed, &public),
                            SignatureScheme::Ed25519,
                        ),
                        _ => {
                            let mut kp = seed.clone();
                            kp.extend_from_slice(&public);
                            PrivateKey::from_ed25519(&kp)
                        }
                    }
                }
                "pk8" => {
                    let der = std::fs::read(spec["path"].as_str().unwrap())
                        .expect("harness: read pk8");
                    PrivateKey::from_pkcs8(
                        &der,
                        scheme_of(spec["scheme"].as_str().unwrap()),
                    )
                }
                _ => panic!("harness: unknown key kind {}", kind),
            };
            match res {
                Ok(k) => {
                    self.keys.insert(name.clone(), k);
                }
                Err(e) => {
                    self.errors.insert(name.clone(), e.to_string());
                }
            }
        }
    }

    pub fn get(&self, name: &str) -> &PrivateKey {
        self.keys
            .get(name)
            .unwrap_or_else(|| panic!("harness: no key {}", name))
    }

    pub fn info(&self) -> Value {
        let mut m = serde_json::Map::new();
        for (name, k) in &self.keys {
            let p = k.public();
            m.insert(
                name.clone(),
                json!({
                    "keyid": serde_json::to_value(p.key_id()).unwrap(),
                    "pub": serde_json::to_value(p).unwrap(),
                    "spki": p.as_spki().map(|b| hex(&b)).unwrap_or_default(),
                    "raw": hex(p.as_bytes()),
                }),
            );
        }
        json!({"keys": m, "errors": self.errors})
    }
}
