//! canonical JSON, rule application (hook), PAE (hook)

use std::collections::HashMap;

use in_toto::interchange::{DataInterchange, Json, JsonPretty};
use in_toto::models::inspection::Inspection;
use in_toto::models::step::Step;
use in_toto::models::supply_chain_item::SupplyChainItem;
use in_toto::models::{verif_hooks, LinkMetadata};
use serde_json::{json, Value};

use crate::util::{clip, guarded, hex, unhex, via_text};

/// {texts: [json text...]} -> [{ok: hex}|{err}|{parse_err}|{panic}]
pub fn canon(case: &Value) -> Value {
    let mut out = Vec::new();
    for t in case["texts"].as_array().unwrap() {
        let t = t.as_str().unwrap();
        let v = match serde_json::from_str::<Value>(t) {
            Ok(v) => v,
            Err(e) => {
                out.push(json!({"parse_err": clip(&e.to_string())}));
                continue;
            }
        };
        fn render(
            r: Result<in_toto::Result<Vec<u8>>, Value>,
        ) -> Value {
            match r {
                Ok(Ok(b)) => match String::from_utf8(b) {
                    Ok(s) => json!({"ok": s}),
                    Err(e) => json!({"ok_hex": hex(e.as_bytes())}),
                },
                Ok(Err(e)) => json!({"err": clip(&e.to_string())}),
                Err(p) => json!({"panic": p}),
            }
        }
        let mut r = render(guarded(|| Json::canonicalize(&v)));
        // the other public routes to the canonical encoding of a value
        let others = json!({
            "Json::to_writer": render(guarded(|| {
                let mut buf = Vec::new();
                Json::to_writer(&mut buf, &v).map(|_| buf)
            })),
            "JsonPretty::canonicalize": render(guarded(|| JsonPretty::canonicalize(&v))),
            // the text read by the crate's own reader instead of serde_json's
            "Json::from_slice + Json::canonicalize": render(guarded(|| {
                let v2: Value = Json::from_slice(t.as_bytes())?;
                Json::canonicalize(&v2)
            })),
            "Json::from_reader + Json::canonicalize": render(guarded(|| {
                let v2: Value = Json::from_reader(crate::util::ChunkReader::new(t.as_bytes()))?;
                Json::canonicalize(&v2)
            })),
            // a sink that takes only a few bytes per call (a pipe, a socket): the whole encoding or an error
            "Json::to_writer(sink taking 3 bytes per call)": render(guarded(|| {
                let mut sink = crate::util::ShortWriter { buf: Vec::new(), step: 3 };
                Json::to_writer(&mut sink, &v).map(|_| sink.buf)
            })),
            "Json::canonicalize(Json::serialize)": render(guarded(|| {
                Json::canonicalize(&Json::serialize(&v)?)
            })),
        });
        let same = others
            .as_object()
            .map(|m| m.values().all(|o| *o == r))
            .unwrap_or(false);
        if !same {
            r["routes"] = others;
        }
        out.push(r);
    }
    json!({"res": out})
}

/// {kind, item, links: {name: link json}, patterns?: [..]}
pub fn rules(case: &Value) -> Value {
    let item: Box<dyn SupplyChainItem> = match case["kind"].as_str() {
        Some("inspection") => {
            match via_text::<Inspection>(&case["item"]) {
                Ok(i) => Box::new(i),
                Err(e) => return json!({"item_err": e.to_string()}),
            }
        }
        _ => match via_text::<Step>(&case["item"]) {
            Ok(s) => Box::new(s),
            Err(e) => return json!({"item_err": e.to_string()}),
        },
    };
    let mut links: HashMap<String, LinkMetadata> = HashMap::new();
    for (name, l) in case["links"].as_object().unwrap() {
        match via_text::<LinkMetadata>(l) {
            Ok(lm) => {
                links.insert(name.clone(), lm);
            }
            Err(e) => return json!({"link_err": e.to_string()}),
        }
    }
    let r = guarded(|| verif_hooks::apply_rules(&item, &links));
    let mut o = match r {
        Ok(Ok(())) => json!({"r": "ok"}),
        Ok(Err(e)) => json!({"r": "err", "e": clip(&e.to_string())}),
        Err(p) => json!({"r": "panic", "panic": p}),
    };
    if let Some(ps) = case.get("patterns").and_then(|v| v.as_array()) {
        o["bad_patterns"] = Value::Array(
            ps.iter()
                .map(|p| json!(glob::Pattern::new(p.as_str().unwrap()).is_err()))
                .collect(),
        );
    }
    o
}

fn unpack_obs(bytes: &[u8]) -> Value {
    match guarded(|| verif_hooks::pae_unpack(bytes)) {
        Ok(Ok((payload, typ))) => json!({"ok": [hex(&payload), typ]}),
        Ok(Err(e)) => json!({"err": clip(&e.to_string())}),
        Err(p) => json!({"panic": p}),
    }
}

/// {packs: [[type, payload_hex]...], unpacks: [hex...]}
pub fn pae(case: &Value) -> Value {
    let mut packs = Vec::new();
    for p in case["packs"].as_array().map(|a| a.as_slice()).unwrap_or(&[]) {
        let typ = p[0].as_str().unwrap().to_string();
        let payload = unhex(p[1].as_str().unwrap());
        let r = guarded(|| verif_hooks::pae_pack(typ.clone(), &payload));
        packs.push(match r {
            Ok(b) => {
                let back = unpack_obs(&b);
                json!({"packed": hex(&b), "back": back})
            }
            Err(p) => json!({"panic": p}),
        });
    }
    let mut unpacks = Vec::new();
    for u in case["unpacks"].as_array().map(|a| a.as_slice()).unwrap_or(&[]) {
        unpacks.push(unpack_obs(&unhex(u.as_str().unwrap())));
    }
    json!({"packs": packs, "unpacks": unpacks})
}

/// {prefix: hex, alphabet: [hex byte...], maxlen}: decode every string over the
/// alphabet up to maxlen appended to prefix; report the ones that decode, the
/// panics, and counts.
pub fn pae_enum(case: &Value) -> Value {
    let prefix = unhex(case["prefix"].as_str().unwrap());
    let alphabet: Vec<u8> = case["alphabet"]
        .as_array()
        .unwrap()
        .iter()
        .map(|b| b.as_u64().unwrap() as u8)
        .collect();
    let maxlen = case["maxlen"].as_u64().unwrap() as usize;
    let mut oks = Vec::new();
    let mut panics = Vec::new();
    let (mut n, mut nerr, mut npanic) = (0u64, 0u64, 0u64);
    let mut sites: HashMap<String, u64> = HashMap::new();
    for len in 0..=maxlen {
        let mut ix = vec![0usize; len];
        loop {
            let mut input = prefix.clone();
            input.extend(ix.iter().map(|i| alphabet[*i]));
            n += 1;
            match guarded(|| verif_hooks::pae_unpack(&input)) {
                Ok(Ok((payload, typ))) => {
                    oks.push(json!([hex(&input), hex(&payload), typ]))
                }
                Ok(Err(_)) => nerr += 1,
                Err(p) => {
                    npanic += 1;
                    *sites
                        .entry(p["loc"].as_str().unwrap_or("?").to_string())
                        .or_insert(0) += 1;
                    if panics.len() < 20 {
                        panics.push(json!([hex(&input), p]));
                    }
                }
            }
            // next index vector (odometer)
            let mut done = len == 0;
            if !done {
                let mut i = len;
                loop {
                    if i == 0 {
                        done = true;
                        break;
                    }
                    i -= 1;
                    ix[i] += 1;
                    if ix[i] < alphabet.len() {
                        break;
                    }
                    ix[i] = 0;
                }
            }
            if done {
                break;
            }
        }
    }
    json!({"n": n, "nerr": nerr, "npanic": npanic, "oks": oks,
           "panics": panics, "panic_sites": sites})
}
