"""C09 — whatever the library signs verifies again after a trip through the wire format.

Monitor: sign (constructor / builder / raw builder) -> four JSON writers -> parse -> verify with
threshold = number of signers (must succeed); negatives: another key, single-bit signature
changes, same RSA key material declared under the other PSS scheme (must all fail).
"""
import copy
import collections
import json

import common
import docgen
import scen

PROP = "C09"
WRITERS = ["compact", "pretty", "cjson", "cjson_pretty"]
SWAP = {"rsa-2048-a": "rsa-2048-a512", "rsa-2048-a512": "rsa-2048-a", "rsa-2048-b": "rsa-2048-b512",
        "rsa-2048-b512": "rsa-2048-b"}


def judge(case, obs, res):
    m = case["meta"]
    if obs.get("parse") != "ok":
        if m["expect"] == "ok":
            res.violate("signed-block-does-not-parse:" + m["writer"],
                        f"metadata signed by the library does not parse back from its own {m['writer']} output: {obs.get('parse')}",
                        case, obs, "ok")
        return
    ver = obs.get("verify")
    if isinstance(ver, dict) and "panic" in ver:
        res.violate("verify-panic", f"verification panicked: {ver['panic']}", case, obs, m["expect"])
        return
    ok = ver == "ok"
    if m["expect"] == "ok" and not ok:
        res.violate(f"roundtrip-verify-fails:{m['via']}:{m['writer']}:{m['keyclass']}",
                    f"library-signed metadata ({m['via']}, {m['writer']}, signers {m['signers']}) does not verify "
                    f"after the wire round trip: {ver}", case, obs, "ok")
    if m["expect"] == "err" and ok:
        res.violate(f"accepts:{m['neg']}", f"signature accepted although {m['neg']}", case, obs, "err")


def keyclass(k):
    return k.split("-")[0].rstrip("0123456789")


def shard(binpath, seed, sh, ndocs, rsa_share):
    rng = common.rng_for(seed, PROP, sh)
    W = scen.World(binpath)
    res = common.Result()
    reqs, plans = [], []
    for i in range(ndocs):
        doc = docgen.rand_link(rng, 0.8) if rng.random() < 0.6 else docgen.rand_layout(rng, W, 0.8)
        pool = common.ALL_KEYS if rng.random() < rsa_share else common.FAST_KEYS
        if rng.random() < 0.02:
            pool = ["rsa-4096-a", "rsa-3072-a"]
        signers = rng.sample(pool, rng.choice([1, 1, 2, 3]) if len(pool) > 2 else 1)
        via = rng.choice(["new", "builder", "raw_builder", "raw_builder_pretty", "api", "api_builder"])
        shadow = False
        if via.startswith("api") and doc["_type"] == "link" and rng.random() < 0.2:
            # a value only the builders can make: an extra by-product field carrying the name of a named one
            doc = copy.deepcopy(doc)
            doc["byproducts"]["\u0001other:" + rng.choice(["stdout", "stderr"])] = rng.choice(["shadow", "", "x\ny"])
            shadow = True
        reqs.append({"op": "sign", "signed": doc, "signers": signers, "via": via, "writers": True})
        plans.append((doc, signers, via if not shadow else via + "+shadowed_byproduct"))
    sobs = common.run_batch(binpath, reqs)
    cases = []
    for (doc, signers, via), so in zip(plans, sobs):
        if "ok" not in so and via.startswith("api") and "programming:" in str(so.get("err", "")):
            res.classes["api_path_cannot_express_document"] += 0
            res.classes["api_path_cannot_express_document"] += 1
            continue
        if "ok" not in so:
            # every generated document is a representable layout or link: signing must work
            res.violate("sign-fails:" + via, f"library could not sign a representable document: {str(so)[:300]}",
                        {"op": "sign", "signed": doc, "signers": signers, "via": via, "meta": {"kind": "sign"}}, so, "ok")
            continue
        out = so["ok"]
        auth = [W.pub(k) for k in signers]
        base = {"doc_is": doc["_type"], "signers": signers, "via": via, "keyclass": "+".join(sorted({keyclass(k) for k in signers}))}
        for wname in WRITERS:
            if via.endswith("+shadowed_byproduct") and wname in ("compact", "pretty"):
                continue      # serde's own streaming writers would repeat the member; the library's writers are the subject
            if wname not in out:
                res.violate("writer-fails:" + wname, f"{wname} writer failed on a signed block", None, so, "text")
                continue
            # the written text is read back from memory, from a stream or through a parsed JSON tree
            route = rng.choice(["slice", "slice", "reader", "json_reader", "value", "json_deserialize"])
            cases.append({"op": "block", "text": out[wname], "threshold": len(signers), "auth": auth, "route": route,
                          "meta": dict(base, writer=wname, expect="ok", route=route)})
        wire = out["wire"]
        # negative: another key of the same type
        k0 = signers[0]
        others = [k for k in common.ALL_KEYS if keyclass(k) == keyclass(k0) and k not in signers and SWAP.get(k0) != k]
        if others:
            ko = rng.choice(others)
            w2 = copy.deepcopy(wire)
            for s in w2["signatures"]:
                if s["keyid"] == W.kid(k0):
                    s["keyid"] = W.kid(ko)
            cases.append({"op": "block", "text": json.dumps(w2), "threshold": 1, "auth": [W.pub(ko)],
                          "meta": dict(base, writer="compact", expect="err", neg="verified under a different key")})
        # negative: single-bit changes of one signature value
        j = rng.randrange(len(wire["signatures"]))
        nb = len(bytes.fromhex(wire["signatures"][j]["sig"])) * 8
        positions = range(nb) if (nb <= 512 and rng.random() < 0.05) else rng.sample(range(nb), 6)
        for pos in positions:
            w2 = copy.deepcopy(wire)
            b = bytearray(bytes.fromhex(w2["signatures"][j]["sig"]))
            b[pos // 8] ^= 1 << (pos % 8)
            w2["signatures"][j]["sig"] = b.hex()
            cases.append({"op": "block", "text": json.dumps(w2), "threshold": len(signers), "auth": auth,
                          "meta": dict(base, writer="compact", expect="err", neg="one signature bit was flipped")})
        # negative: ed25519 / ECDSA key material imported (DER) under a scheme that does not belong to it
        k0 = signers[0]
        if len(signers) == 1 and keyclass(k0) in ("ed", "edp", "ec"):
            spki = W.ki[k0]["spki"]
            if keyclass(k0) != "ec":
                spki = "302a300506032b6570032100" + W.ki[k0]["raw"]
            for foreign in (["rsassa-pss-sha256", "ecdsa-sha2-nistp256", "bogus"] if keyclass(k0) != "ec" else ["ed25519", "rsassa-pss-sha512", "bogus"]):
                cases.append({"op": "block", "text": json.dumps(wire), "threshold": 1, "auth": [{"spki": spki, "scheme": foreign}],
                              "relabel_to_auth0": True,
                              "meta": dict(base, writer="compact", expect="err",
                                           neg="the same ed25519/ECDSA key material was declared with a foreign scheme")})
        # negative: same key material declared under the other scheme
        for k in signers:
            if k in SWAP:
                w2 = copy.deepcopy(wire)
                w2["signatures"] = [dict(s, keyid=W.kid(SWAP[k])) for s in w2["signatures"] if s["keyid"] == W.kid(k)]
                cases.append({"op": "block", "text": json.dumps(w2), "threshold": 1, "auth": [W.pub(SWAP[k])],
                              "meta": dict(base, writer="compact", expect="err",
                                           neg="the same RSA key material was declared with the other PSS scheme")})
    obs = common.run_batch(binpath, cases)
    for c, o in zip(cases, obs):
        if any(k in o for k in ("crash", "watchdog", "missing")):
            res.inconclusive.append(f"executor failure: {str(o)[:200]}")
            continue
        m = c["meta"]
        judge(c, o, res)
        cls = [f"via:{m['via']}", f"writer:{m['writer']}", f"keys:{m['keyclass']}", f"doc:{m['doc_is']}",
               "positive" if m["expect"] == "ok" else "neg:" + m["neg"], f"nsigners:{len(m['signers'])}"]
        if m["expect"] == "ok" and o.get("verify") == "ok":
            cls.append("positive_verified")
            cls.append("read_back_via:" + m.get("route", "slice"))
        res.note([c["text"], m["expect"]], True, cls=cls)
    if sh == 0 and cases:
        res.sample({"meta": cases[0]["meta"], "text": cases[0]["text"][:600], "verify": obs[0].get("verify")})
    return res


def ecdsa_volume(binpath, res, n):
    """ECDSA signatures are randomised and their DER encoding varies in length (a leading zero byte less in r or s every
    ~128th time): enough of them that every length the signer produces is met on every run"""
    import scen
    W = scen.World(binpath)
    reqs = []
    for i in range(n):
        doc = scen.mk_link(f"ec{i}", {"a": scen.digest(i % 250)}, {}, ["c"], {"return-value": 0})
        reqs.append((doc, [["ec-a", "ec-b", "ec-c"][i % 3]], "new"))
    wires = scen.sign_all(binpath, reqs)
    cases = [{"op": "block", "text": json.dumps(w), "threshold": 1, "auth": [W.pub(r[1][0])], "meta": {"signer": r[1][0]}} for w, r in zip(wires, reqs)]
    obs = common.run_sharded(binpath, cases)
    lens = collections.Counter()
    for c, o in zip(cases, obs):
        if "verify" not in o:
            res.inconclusive.append(f"executor failure: {str(o)[:200]}")
            continue
        sig = json.loads(c["text"])["signatures"][0]["sig"]
        lens[len(sig) // 2] += 1
        if o["verify"] != "ok":
            res.violate("roundtrip-verify-fails:ecdsa_volume", f"a link signed by {c['meta']['signer']} (ECDSA, signature of {len(sig) // 2} bytes) does not verify "
                        f"after the wire round trip: {o['verify']}", c, o, "ok")
        res.note([c["text"]], True, cls=["ecdsa_volume", "positive_verified"] if o["verify"] == "ok" else ["ecdsa_volume"])
    res.extras["ecdsa_signature_lengths_seen"] = {str(k): v for k, v in sorted(lens.items())}
    if len(lens) < 3:
        res.inconclusive.append(f"only {len(lens)} distinct ECDSA signature lengths among {n} signatures")


def main(ctx):
    res = common.Result()
    ecdsa_volume(ctx.bin, res, 6000 if not ctx.thorough else 40000)
    n = 150 if not ctx.thorough else 4000
    for p in common.pmap(shard, [(ctx.bin, ctx.seed, s, n, 0.15) for s in range(common.NPROC)]):
        res.merge(p)
    return common.finish(
        PROP, ctx.tier, ctx.seed, res, t0=ctx.t0,
        rule="random layouts/links with hostile text in every string field (LF, CR, TAB, C0 controls, DEL, "
             "backslash, quote, backslash-n, U+2028, non-BMP, long, empty) x key types x 1-3 signers x "
             "{constructor, builder, raw builder over compact / pretty bytes, public-API-built values} x {serde compact, serde pretty, Json writer, JsonPretty writer}; "
             "negatives: other key, bit flips, other PSS scheme; every case is non-trivial; distinct by SHA-256 of wire text",
        assumptions=["ring's primitives are correct", "serde_json is the wire reader"],
        required=["positive_verified", "read_back_via:reader", "read_back_via:value", "read_back_via:json_reader", "read_back_via:json_deserialize", "via:new", "via:builder", "via:raw_builder", "via:raw_builder_pretty", "via:api", "via:api_builder", "writer:pretty", "writer:cjson",
                  "writer:cjson_pretty", "keys:ed", "keys:ec", "keys:rsa", "doc:link", "doc:layout",
                  "neg:one signature bit was flipped", "neg:verified under a different key",
                  "neg:the same RSA key material was declared with the other PSS scheme",
                  "neg:the same ed25519/ECDSA key material was declared with a foreign scheme"],
        min_evals=1000)
