#![no_main]
//! untrusted step + links (one JSON document {"item":…, "links":{…}}) -> rule application
use std::collections::HashMap;

use in_toto::models::step::Step;
use in_toto::models::supply_chain_item::SupplyChainItem;
use in_toto::models::{verif_hooks, LinkMetadata};
use libfuzzer_sys::fuzz_target;

fuzz_target!(|data: &[u8]| {
    let v: serde_json::Value = match serde_json::from_slice(data) {
        Ok(v) => v,
        Err(_) => return,
    };
    let item: Step = match serde_json::from_str(&v["item"].to_string()) {
        Ok(s) => s,
        Err(_) => return,
    };
    let mut links: HashMap<String, LinkMetadata> = HashMap::new();
    if let Some(m) = v["links"].as_object() {
        for (k, l) in m {
            if let Ok(lm) = serde_json::from_str::<LinkMetadata>(&l.to_string()) {
                links.insert(k.clone(), lm);
            }
        }
    }
    let item: Box<dyn SupplyChainItem> = Box::new(item);
    let _ = verif_hooks::apply_rules(&item, &links);
});
