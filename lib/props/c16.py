"""C16 — layout, link and signed-block metadata survive a wire round trip unchanged.

Monitor: documents generated from the wire schema are parsed; the parsed value is serialised by
every writer, parsed back (must be equal) and serialised again (must be byte-identical); the
re-serialised JSON tree is compared with the input tree after the documented normalisations only.
"""
import copy
import json

import common
import corpus
import scen

PROP = "C16"
TYPES = ["metablock", "wrapper", "layout", "link", "pubkey", "signature", "keyid", "rule", "step", "inspection",
         "byproducts", "command"]
WRITERS = ["compact", "pretty", "cjson", "cjson_pretty"]


def norm_key(p):
    p = copy.deepcopy(p)
    p.setdefault("keyval", {}).setdefault("private", "")
    return p


def normalise(t, d, keyids=None):
    """the documented normalisations a parse + re-serialise is allowed to make"""
    d = copy.deepcopy(d)
    if t == "metablock":
        d["signed"] = normalise("wrapper", d["signed"])
        return d
    if t in ("wrapper", "layout", "link"):
        if "steps" in d or d.get("_type") == "layout":
            d["_type"] = "layout"
            d["keys"] = {k: norm_key(v) for k, v in d.get("keys", {}).items()}
        else:
            d["_type"] = "link"
            d.setdefault("environment", None)
        return d
    if t == "pubkey":
        return norm_key(d)
    return d


def strip_keyid(d):
    """the serialised key carries a recomputed keyid; drop it on both sides when the input had none"""
    return d


def judge(case, obs, res):
    m = case["meta"]
    if "ch" not in obs:
        res.inconclusive.append(f"executor failure: {str(obs)[:200]}")
        return None
    for ch, o in obs["ch"].items():
        if isinstance(o, dict) and "panic" in o:
            res.violate(f"parse-panic:{case['type']}", f"parsing a {case['type']} panicked ({ch}): {o['panic']}", case, obs, None)
            return "panic"
    if obs["n_ok"] == 0:
        return "rejected"
    rt = obs["rt"]
    t = case["type"]
    for w in WRITERS:
        r = rt.get(w)
        if r is None:
            continue
        if "panic" in r:
            res.violate(f"serialise-panic:{t}:{w}", f"{w} round trip panicked: {r['panic']}", case, obs, None)
        elif "err" in r:
            res.violate(f"roundtrip-fails:{t}:{w}", f"{w}: serialise/parse of a parsed {t} fails: {r['err']}", case, obs, "equal value")
        else:
            if r["eq"] is not True:
                res.violate(f"roundtrip-value-differs:{t}:{w}", f"parse(serialise(v)) != v for a {t} through the {w} writer", case, obs, "equal")
            if r["same_bytes"] is not True:
                res.violate(f"reserialisation-not-byte-identical:{t}:{w}", f"serialise(parse(serialise(v))) differs from serialise(v) for a {t} ({w})",
                            case, obs, "identical bytes")
    if m.get("valid") or m.get("if_accepted_unaltered"):
        want = normalise(t, json.loads(case["text"]))
        got = rt["val"]
        if t == "pubkey" or t in ("metablock", "wrapper", "layout"):
            got, want = drop_recomputed_keyid(t, got, want)
        if json.dumps(got, sort_keys=True) != json.dumps(want, sort_keys=True):
            diff = first_diff(want, got)
            res.violate(f"parse-alters-field:{t}:{diff[0]}", f"an accepted {t} comes back changed at {diff[1]}: {json.dumps(diff[2])[:150]} -> {json.dumps(diff[3])[:150]}",
                        case, {"val": got}, want)
    return "accepted"


def judge_api(case, obs, res):
    if "not_expressible" in obs:
        res.classes["builders_cannot_express_document"] += 1
        return
    if "panic" in obs:
        res.violate("builder-panic", f"building a value through the public builders panicked: {obs['panic']}", case, obs, None)
        return
    if "built" not in obs:
        res.inconclusive.append(f"executor failure: {str(obs)[:200]}")
        return
    for w in WRITERS:
        r = obs.get(w)
        if r is None:
            continue
        if "panic" in r or "err" in r:
            res.violate(f"builder-value-roundtrip-fails:{w}", f"{w}: serialise/parse of a builder-made value fails: {r}", case, obs, "equal value")
        else:
            if r["eq"] is not True:
                res.violate(f"builder-value-roundtrip-differs:{w}", f"parse(serialise(v)) != v for a value made with the public builders ({w})", case, obs, "equal")
            if r["same_bytes"] is not True:
                res.violate(f"builder-value-reserialisation-differs:{w}", "second serialisation not byte-identical for a builder-made value", case, obs, None)
    want = normalise(case["type"], case["doc"])
    got, want = drop_recomputed_keyid(case["type"], obs["val"], want)
    if json.dumps(got, sort_keys=True) != json.dumps(want, sort_keys=True):
        d = first_diff(want, got)
        res.violate(f"builder-value-serialises-differently:{d[0]}", f"a builder-made value serialises with {d[1]} = {json.dumps(d[3])[:120]} instead of {json.dumps(d[2])[:120]}", case, {"val": got}, want)
    res.note(["api", case["text"]], True, cls=["roundtrip:builder_value", f"builder_value:{case['type']}"], n=4)


def drop_recomputed_keyid(t, got, want):
    got, want = copy.deepcopy(got), copy.deepcopy(want)

    def fix(g, w):
        if isinstance(w, dict) and "keyid" not in w and isinstance(g, dict):
            g.pop("keyid", None)
    if t == "pubkey":
        fix(got, want)
    else:
        gs = got["signed"] if t == "metablock" else got
        ws = want["signed"] if t == "metablock" else want
        for k, v in ws.get("keys", {}).items():
            if k in gs.get("keys", {}):
                fix(gs["keys"][k], v)
    return got, want


def first_diff(a, b, path=""):
    if type(a) is not type(b):
        return (field_class(path), path, a, b)
    if isinstance(a, dict):
        for k in sorted(set(a) | set(b)):
            if k not in a or k not in b:
                return (field_class(path + "/" + k), path + "/" + k, a.get(k, "<absent>"), b.get(k, "<absent>"))
            d = first_diff(a[k], b[k], path + "/" + k)
            if d:
                return d
        return None
    if isinstance(a, list):
        if len(a) != len(b):
            return (field_class(path), path, a, b)
        for i, (x, y) in enumerate(zip(a, b)):
            d = first_diff(x, y, f"{path}/{i}")
            if d:
                return d
        return None
    return None if a == b else (field_class(path), path, a, b)


def field_class(path):
    parts = [p for p in path.split("/") if p and not p.isdigit() and len(p) != 64]
    return "/".join(parts[-2:]) or "root"


def shard(binpath, seed, sh, n):
    rng = common.rng_for(seed, PROP, sh)
    W = scen.World(binpath)
    res = common.Result()
    cases = []
    for i in range(n):
        while True:
            t, d = corpus.gen_valid(rng, W) if i % 5 else corpus.gen_invalid(rng, W)
            if t in TYPES:
                break
        cases.append({"op": "serde", "type": t, "text": json.dumps(d, ensure_ascii=False), "meta": {"valid": bool(i % 5)}})
    # hexadecimal fields (digests, signature values) in another letter case: rejected, or accepted and kept as written
    import re
    extra = []
    for c in cases:
        if c["meta"]["valid"] and c["type"] in ("metablock", "link", "wrapper", "signature") and len(extra) < n // 10:
            # digests and signature values only (a key-table entry whose identifier does not fit its key is dropped with
            # a logged warning - that is not a silent change, and C12's subject)
            hexes = re.findall(r'"(?:sig|sha256|sha512)": "([0-9a-f]{32,})"', c["text"])
            hexes = [h for h in hexes if re.search("[a-f]", h)]
            if hexes:
                h = rng.choice(hexes)
                how = rng.choice(["upper", "mixed"])
                h2 = h.upper() if how == "upper" else "".join(ch.upper() if i % 3 == 0 else ch for i, ch in enumerate(h))
                extra.append({"op": "serde", "type": c["type"], "text": c["text"].replace('"' + h + '"', '"' + h2 + '"', 1),
                              "meta": {"valid": False, "if_accepted_unaltered": True, "hexcase": how}})
    # rule keywords (CREATE ... MATCH, IN / WITH / MATERIALS / PRODUCTS / FROM) in another letter case: rejected, or accepted
    # and written back as they were read
    kw = 0
    for c in list(cases):
        if c["meta"]["valid"] and c["type"] in ("metablock", "layout", "wrapper", "rule", "step", "inspection") and kw < n // 10:
            found = re.findall(r'"(CREATE|DELETE|MODIFY|ALLOW|REQUIRE|DISALLOW|MATCH|WITH|MATERIALS|PRODUCTS|FROM|IN)"', c["text"])
            if found:
                w = rng.choice(found)
                how = rng.choice(["lower", "title", "mixed"])
                w2 = w.lower() if how == "lower" else w.title() if how == "title" else w[0] + w[1:].lower()[:-1] + w[-1]
                if w2 == w:
                    w2 = w.lower()
                extra.append({"op": "serde", "type": c["type"], "text": c["text"].replace('"' + w + '"', '"' + w2 + '"', 1),
                              "meta": {"valid": False, "if_accepted_unaltered": True, "kwcase": how}})
                kw += 1
    cases += extra
    # values obtained from the public builders (not from parsing): same writer round trips
    api_cases = []
    for c in cases:
        if c["meta"]["valid"] and c["type"] in ("layout", "link", "wrapper") and len(api_cases) < n // 4:
            api_cases.append({"op": "api_rt", "doc": json.loads(c["text"]), "type": c["type"], "text": c["text"], "meta": {"valid": True, "api": True}})
    for c, o in zip(api_cases, common.run_batch(binpath, api_cases, keys=False)):
        judge_api(c, o, res)
    obs = common.run_batch(binpath, cases, keys=False)
    for c, o in zip(cases, obs):
        r = judge(c, o, res)
        if r is None:
            continue
        cls = [f"type:{c['type']}", f"{'valid' if c['meta']['valid'] else 'mutated'}:{r}"]
        if c["meta"].get("hexcase"):
            cls.append(f"hex_letter_case:{r}")
        if c["meta"].get("kwcase"):
            cls.append(f"rule_keyword_letter_case:{r}")
        if r == "accepted":
            cls.append(f"roundtrip:{c['type']}")
            if '"MATCH"' in c["text"]:
                cls.append("rule_form:MATCH")
            if '"environment": null' in c["text"] or '"environment"' not in c["text"]:
                cls.append("environment:null_or_absent")
            if '"sha512"' in c["text"] and '"sha256"' in c["text"]:
                cls.append("multi_algorithm_digests")
        res.note([c["type"], c["text"]], r == "accepted", cls=cls, n=4 if r == "accepted" else 1)
    if sh == 0:
        for c, o in list(zip(cases, obs))[:3]:
            res.sample({"type": c["type"], "text": c["text"][:400], "channels": o.get("ch"),
                        "roundtrip": {w: {k: v for k, v in o.get("rt", {}).get(w, {}).items() if k != "text"} for w in WRITERS}})
    return res


def main(ctx):
    res = common.Result()
    n = 700 if not ctx.thorough else 40000
    for p in common.pmap(shard, [(ctx.bin, ctx.seed, s, n) for s in range(common.NPROC)]):
        res.merge(p)
    res.extras["out_of_domain"] = ["byproduct extra-field names equal to stdout/stderr/return-value", "unknown hash algorithms / key types",
                                   "sub-second expiry"]
    return common.finish(
        PROP, ctx.tier, ctx.seed, res, t0=ctx.t0,
        rule="documents of every wire type (signed blocks, layouts, links, keys, signatures, rules in all MATCH forms, steps, "
             "inspections, byproducts, commands) generated from the schema with hostile strings, empty collections, "
             "absent/null environment, all key types, multi-algorithm digests; 20% single-field mutations; each accepted "
             "document: 4 writers x (parse back equal, re-serialise byte-identical) + tree comparison with the input; "
             "non-trivial = accepted; distinct by (type, text)",
        assumptions=["the normalisations in normalise() are the documented ones (forced top-level _type, null environment, "
                     "keyid / empty private member added to keys)"],
        required=["roundtrip:metablock", "roundtrip:layout", "roundtrip:link", "roundtrip:rule", "roundtrip:pubkey", "roundtrip:step",
                  "roundtrip:inspection", "roundtrip:byproducts", "roundtrip:builder_value", "rule_form:MATCH", "environment:null_or_absent", "mutated:rejected",
                  "multi_algorithm_digests"],
        min_evals=5000)
