"""C12 — key identity is intrinsic, stable, interoperable and cannot be aliased.

Monitor: every public-key construction path is driven for pool keys and fresh OpenSSL keys; ids are
compared across paths (within one hash-algorithm-list variant), with an independent SHA-256 of
the reference encoding, across a JSON round trip; OpenSSL's SubjectPublicKeyInfo must import and
re-export byte-identically; parsed layout key tables and end-to-end aliasing scenarios are checked.
"""
import base64
import copy
import hashlib
import json
import shutil
import subprocess

import common
import pipeline
import scen
from props import c11

PROP = "C12"
ED_SPKI_PREFIX = bytes.fromhex("302a300506032b6570032100")
HA = ["sha256", "sha512"]


def pem(der, crlf=False, trailing=True, width=64):
    b = base64.b64encode(der).decode()
    lines = [b[i:i + width] for i in range(0, len(b), width)]
    nl = "\r\n" if crlf else "\n"
    s = "-----BEGIN PUBLIC KEY-----" + nl + nl.join(lines) + nl + "-----END PUBLIC KEY-----"
    return s + (nl if trailing else "")


def ed_pk8v2(seed, pub):
    return bytes.fromhex("3051020101300506032b657004220420") + seed + bytes.fromhex("812100") + pub


def paths_for(kind, mat):
    """(variant, path-spec) list; variant: 'none' (no keyid_hash_algorithms) or 'default'"""
    out = []
    if kind == "ed25519":
        raw, spki = mat["raw"], ED_SPKI_PREFIX + mat["raw"]
        out += [("none", {"how": "ed_raw", "hex": raw.hex(), "hash_algs": False}),
                ("default", {"how": "ed_raw", "hex": raw.hex(), "hash_algs": True}),
                ("default", {"how": "spki", "hex": spki.hex(), "scheme": "ed25519", "std": True}),
                ("default", {"how": "pem", "text": pem(spki), "scheme": "ed25519", "std": True}),
                ("default", {"how": "pem", "text": pem(spki, crlf=True), "scheme": "ed25519", "std": True}),
                ("default", {"how": "pem", "text": pem(spki, trailing=False), "scheme": "ed25519", "std": True}),
                ("none", {"how": "json", "value": {"keytype": "ed25519", "scheme": "ed25519", "keyval": {"public": raw.hex()}}}),
                # a present-but-empty list is a third, distinct description
                ("empty", {"how": "json", "value": {"keytype": "ed25519", "scheme": "ed25519", "keyid_hash_algorithms": [],
                                                    "keyval": {"public": raw.hex()}}}),
                ("sha512only", {"how": "json", "value": {"keytype": "ed25519", "scheme": "ed25519", "keyid_hash_algorithms": ["sha512"],
                                                         "keyval": {"public": raw.hex()}}}),
                ("default", {"how": "json", "value": {"keytype": "ed25519", "scheme": "ed25519", "keyid_hash_algorithms": HA,
                                                      "keyval": {"public": raw.hex()}}})]
        if "seed" in mat:
            out += [("none", {"how": "ed_keypair", "hex": (mat["seed"] + raw).hex()}),
                    ("default", {"how": "pk8", "hex": ed_pk8v2(mat["seed"], raw).hex(), "scheme": "ed25519"})]
        # the legacy form with NULL parameters that older versions of this library wrote
        legacy = bytes.fromhex("302c300706032b65700500032100") + raw
        out.append(("default", {"how": "spki", "hex": legacy.hex(), "scheme": "ed25519", "std": False}))
    elif kind == "ecdsa":
        spki = mat["spki"]
        raw = spki[-65:]
        out += [("none", {"how": "ecdsa_raw", "hex": raw.hex(), "hash_algs": False}),
                ("default", {"how": "ecdsa_raw", "hex": raw.hex(), "hash_algs": True}),
                ("default", {"how": "spki", "hex": spki.hex(), "scheme": "ecdsa-sha2-nistp256", "std": True}),
                ("default", {"how": "pem", "text": pem(spki), "scheme": "ecdsa-sha2-nistp256", "std": True}),
                ("default", {"how": "pem", "text": pem(spki, crlf=True), "scheme": "ecdsa-sha2-nistp256", "std": True}),
                ("none", {"how": "json", "value": {"keytype": "ecdsa", "scheme": "ecdsa-sha2-nistp256", "keyval": {"public": raw.hex()}}}),
                ("empty", {"how": "json", "value": {"keytype": "ecdsa", "scheme": "ecdsa-sha2-nistp256", "keyid_hash_algorithms": [],
                                                    "keyval": {"public": raw.hex()}}}),
                ("default", {"how": "json", "value": {"keytype": "ecdsa", "scheme": "ecdsa-sha2-nistp256", "keyid_hash_algorithms": HA,
                                                      "keyval": {"public": raw.hex()}}})]
        if "pk8" in mat:
            out.append(("default", {"how": "pk8", "hex": mat["pk8"].hex(), "scheme": "ecdsa-sha2-nistp256"}))
    else:
        spki = mat["spki"]
        for scheme in ("rsassa-pss-sha256", "rsassa-pss-sha512"):
            v = "default:" + scheme
            out += [("empty:" + scheme, {"how": "json", "value": {"keytype": "rsa", "scheme": scheme, "keyid_hash_algorithms": [],
                                                                  "keyval": {"public": pem(spki, trailing=False)}}}),
                    ("none:" + scheme, {"how": "json", "value": {"keytype": "rsa", "scheme": scheme,
                                                                 "keyval": {"public": pem(spki, trailing=False)}}}),
                    (v, {"how": "spki", "hex": spki.hex(), "scheme": scheme, "std": True}),
                    (v, {"how": "pem", "text": pem(spki), "scheme": scheme, "std": True}),
                    (v, {"how": "pem", "text": pem(spki, crlf=True), "scheme": scheme, "std": True}),
                    (v, {"how": "pem", "text": pem(spki, width=76, trailing=False), "scheme": scheme, "std": True}),
                    (v, {"how": "json", "value": {"keytype": "rsa", "scheme": scheme, "keyid_hash_algorithms": HA,
                                                  "keyval": {"public": pem(spki, trailing=False)}}}),
                    (v, {"how": "json", "value": {"keytype": "rsa", "scheme": scheme, "keyid_hash_algorithms": HA,
                                                  "keyval": {"public": pem(spki, crlf=True)}}})]
            if "pk8" in mat:
                out.append((v, {"how": "pk8", "hex": mat["pk8"].hex(), "scheme": scheme}))
    return with_recorded_ids_later(out)


def with_recorded_ids_later(paths):
    return with_recorded_ids(paths)


def with_recorded_ids(paths):
    """for every JSON description without a `keyid` member: the same description carrying a recorded `keyid` - the id of
    another description of the same key material (with / without the default hash-algorithm list), or an arbitrary one.
    What a document says about its own id is not part of the key."""
    out = list(paths)
    for variant, spec in paths:
        if spec["how"] != "json" or "keyid" in spec["value"]:
            continue
        v = spec["value"]
        other = dict(v)
        if "keyid_hash_algorithms" in other:
            del other["keyid_hash_algorithms"]
        else:
            other["keyid_hash_algorithms"] = HA
        for rec in (c11.ref_keyid(other), c11.ref_keyid(v), "cd" * 32):
            out.append((variant, {"how": "json", "value": dict(v, keyid=rec)}))
    return out


def judge(case, obs, res):
    m = case["meta"]
    if "paths" not in obs:
        res.inconclusive.append(f"executor failure: {str(obs)[:200]}")
        return
    by_variant = {}
    for i, ((variant, spec), o) in enumerate(zip(m["paths"], obs["paths"])):
        how = spec["how"] + ("" if spec.get("std", True) else "(legacy)")
        sub = {"op": "keys12", "paths": [spec], "meta": {"paths": [[variant, spec]], "kind": m["kind"], "name": m["name"]}}
        if "panic" in o:
            res.violate(f"key-import-panic:{how}", f"{how} import of {m['name']} panicked: {o['panic']}", sub, o, "key")
            continue
        if "err" in o:
            if spec.get("std", True):
                res.violate(f"standard-key-rejected:{m['kind']}:{spec['how']}",
                            f"{m['kind']} key {m['name']} in a standards-conformant form ({spec['how']}) is rejected: {o['err']}",
                            sub, o, "key")
            else:
                res.classes["legacy_form_rejected"] += 1
            continue
        k = o["ok"]
        res.classes[f"path:{m['kind']}:{how}"] += 1
        by_variant.setdefault(variant, []).append((i, how, k, spec))
        want = c11.ref_keyid(k["pub"])
        if k["keyid"] != want:
            res.violate(f"keyid-not-sha256-of-description:{m['kind']}", f"{how}: key id {k['keyid']} != sha256(reference "
                        f"encoding of the key description) {want}", sub, o, want)
        if k["pub"].get("keyid") != k["keyid"]:
            res.violate("serialised-keyid-differs", f"{how}: serialised keyid field differs from key_id()", sub, o, None)
        if k["rt_keyid"] != k["keyid"] or k["rt_eq"] is not True:
            res.violate(f"keyid-changes-in-json-roundtrip:{m['kind']}", f"{how}: id/key changed across a JSON round trip "
                        f"({k['keyid']} -> {k['rt_keyid']}, equal={k['rt_eq']})", sub, o, k["keyid"])
        if spec["how"] in ("spki", "pem") and spec.get("std", True):
            std = m["std_spki"]
            if k["spki"] != std:
                res.violate(f"spki-reexport-differs:{m['kind']}", f"{how}: as_spki() of an imported standard SubjectPublicKeyInfo "
                            f"is {k['spki']}, the standard encoding is {std}", sub, o, std)
            else:
                res.classes[f"spki_reexport_identical:{m['kind']}"] += 1
    for variant, lst in by_variant.items():
        ids = {k["keyid"] for _, _, k, _ in lst}
        if len(ids) > 1:
            res.violate(f"keyid-depends-on-construction-path:{m['kind']}",
                        f"key {m['name']} ({variant}) has different ids by path: " +
                        ", ".join(f"{how}={k['keyid'][:8]}" for _, how, k, _ in lst), case, None, "one id")
        i0 = lst[0][0]
        for i, how, k, _ in lst[1:]:
            if obs["eq"][i0][i] is not True:
                res.violate(f"keys-unequal-across-paths:{m['kind']}", f"key {m['name']} built via {lst[0][1]} and {how} "
                            f"compare unequal", case, None, "equal")
        res.classes[f"variant_paths_compared:{m['kind']}"] += len(lst)


def pool_materials():
    mats = []
    for i in range(8):
        mats.append(("ed25519", f"ed{i}", {"seed": bytes.fromhex(common._ed_seed(i))}))
    for n in ("a", "b"):
        v1 = (common.KEYS / f"ed-ossl-{n}.pk8v1.der").read_bytes()
        spki = (common.KEYS / f"ed-ossl-{n}.spki.der").read_bytes()
        mats.append(("ed25519", f"ed-ossl-{n}", {"seed": v1[16:48], "raw": spki[-32:], "ossl_spki": spki}))
    for n in "abc":
        mats.append(("ecdsa", f"ec-{n}", {"spki": (common.KEYS / f"ec-{n}.spki.der").read_bytes(),
                                         "pk8": (common.KEYS / f"ec-{n}.pk8.der").read_bytes()}))
    # incl. two keys with unusual public exponents (0x800001: top bit of the top byte set; 0x100000001: 5 bytes)
    for n in ("2048-a", "2048-b", "3072-a", "4096-a", "2048-e800001", "2048-e100000001"):
        mats.append(("rsa", f"rsa-{n}", {"spki": (common.KEYS / f"rsa-{n}.spki.der").read_bytes(),
                                        "pk8": (common.KEYS / f"rsa-{n}.pk8.der").read_bytes()}))
    # RSA public keys of 48 sizes (2048, 2056, .. 2424 bits, made by OpenSSL): the length of the DER encoding, and with
    # it the length of the last line of the PEM text, takes every residue
    for f in sorted(common.KEYS.glob("rsa-sz*.spki.der")):
        mats.append(("rsa", f.name.split(".")[0], {"spki": f.read_bytes()}))
    return mats


def fresh_materials(n, sd):
    """fresh keys from the OpenSSL CLI (thorough)"""
    mats = []
    if shutil.which("openssl") is None:
        return mats
    for i in range(n):
        kind = ["ed25519", "ecdsa", "rsa", "ed25519", "ecdsa"][i % 5]
        kf = sd / f"fresh{i}.pem"
        if kind == "ed25519":
            subprocess.run(["openssl", "genpkey", "-algorithm", "ed25519", "-out", str(kf)], capture_output=True)
        elif kind == "ecdsa":
            subprocess.run(["openssl", "ecparam", "-name", "prime256v1", "-genkey", "-noout", "-out", str(kf)], capture_output=True)
        else:
            bits = [2048, 2048, 3072, 4096][(i // 5) % 4]
            subprocess.run(["openssl", "genpkey", "-algorithm", "RSA", "-pkeyopt", f"rsa_keygen_bits:{bits}", "-out", str(kf)], capture_output=True)
        spki = subprocess.run(["openssl", "pkey", "-in", str(kf), "-pubout", "-outform", "der"], capture_output=True).stdout
        pk8 = subprocess.run(["openssl", "pkcs8", "-topk8", "-nocrypt", "-in", str(kf), "-outform", "der"], capture_output=True).stdout
        if not spki:
            continue
        if kind == "ed25519":
            mats.append((kind, f"fresh-ed-{i}", {"seed": pk8[16:48], "raw": spki[-32:], "ossl_spki": spki}))
        else:
            mats.append((kind, f"fresh-{kind}-{i}", {"spki": spki, "pk8": pk8}))
    return mats


def key_cases(binpath, mats):
    W = scen.World(binpath)
    cases = []
    for kind, name, mat in mats:
        if kind == "ed25519" and "raw" not in mat:
            mat["raw"] = bytes.fromhex(W.ki[name]["raw"])
        std = (ED_SPKI_PREFIX + mat["raw"]) if kind == "ed25519" else mat["spki"]
        if "ossl_spki" in mat and mat["ossl_spki"] != std:
            raise common.Inconclusive("OpenSSL's ed25519 SPKI is not the RFC 8410 form assumed by the generator")
        ps = paths_for(kind, mat)
        cases.append({"op": "keys12", "paths": [p for _, p in ps],
                      "meta": {"kind": kind, "name": name, "paths": [[v, p] for v, p in ps], "std_spki": std.hex()}})
    return cases


def table_checks(binpath, res, seed, n):
    """parsed layout key tables never keep an entry whose id is not the key's own"""
    rng = common.rng_for(seed, PROP, 77)
    W = scen.World(binpath)
    cases = []
    for i in range(n):
        names = rng.sample(common.ALL_KEYS, rng.randrange(1, 5))
        table = {}
        expect_ids = set()
        absent_ids, own_filed = set(), set()
        for k in names:
            mode = rng.choice(["own", "own", "own_variant", "others_id", "random_id", "inner_keyid_lies", "wrong_length", "own_id_in_capitals"])
            pub = W.pub(k)
            if mode == "own_variant":
                # the same key material described without / with an empty / with another hash-algorithm list: a different
                # key description with its own id (computed here, independently)
                pub.pop("keyid", None)
                v = rng.choice(["absent", "empty", "sha512"])
                if v == "absent":
                    pub.pop("keyid_hash_algorithms", None)
                elif v == "empty":
                    pub["keyid_hash_algorithms"] = []
                else:
                    pub["keyid_hash_algorithms"] = ["sha512"]
                kid = c11.ref_keyid(pub)
                pub["keyid"] = kid
                table[kid] = pub
                expect_ids.add(kid)
                continue
            if mode == "own_id_in_capitals":
                # an identifier is a text: the key's id written with capital hex digits is another text, hence not the key's id
                up = W.kid(k).upper() if rng.random() < 0.6 else "".join(ch.upper() if j % 5 == 0 else ch for j, ch in enumerate(W.kid(k)))
                if up != W.kid(k):
                    if rng.random() < 0.5:
                        pub["keyid"] = up
                    table[up] = pub
                    absent_ids.add(W.kid(k))
                continue
            if mode == "own":
                table[W.kid(k)] = pub
                expect_ids.add(W.kid(k))
                own_filed.add(W.kid(k))
            elif mode == "others_id":
                other = rng.choice([x for x in common.ALL_KEYS if x != k])
                table[W.kid(other)] = pub
                expect_ids.discard(W.kid(other))
            elif mode == "random_id":
                table["%064x" % rng.getrandbits(256)] = pub
            elif mode == "inner_keyid_lies":
                other = rng.choice([x for x in common.ALL_KEYS if x != k])
                pub["keyid"] = W.kid(other)
                table[W.kid(other)] = pub
                expect_ids.discard(W.kid(other))
            else:
                table[W.kid(k)[:40]] = pub
        layout = scen.mk_layout(W, [], [], [], "2030-01-01T00:00:00Z", "", keys=table)
        cases.append({"op": "serde", "type": "layout", "text": json.dumps(layout), "meta": {"table_modes": sorted(table), "expect_ids": sorted(expect_ids), "absent_ids": sorted(absent_ids - own_filed)}})
    obs = common.run_batch(binpath, cases)
    for c, o in zip(cases, obs):
        if "ch" not in o:
            res.inconclusive.append(f"executor failure: {str(o)[:200]}")
            continue
        res.note([c["text"]], True, cls="key_table:" + ("parsed" if o["n_ok"] else "rejected"))
        if not o["n_ok"]:
            continue
        keys = o["rt"]["val"]["keys"]
        for kid, entry in keys.items():
            own = c11.ref_keyid(entry)
            if kid != own or entry.get("keyid") != kid:
                res.violate("key-table-maps-id-to-other-key", f"parsed layout maps id {kid} to a key whose own id is {own}",
                            c, {"keys": keys}, "entry dropped")
        for kid in c["meta"]["absent_ids"]:
            res.classes["key_table:entry_filed_under_capital_spelling"] += 1
            if kid in keys or kid.upper() in keys:
                res.violate("key-table-keeps-entry-filed-under-another-spelling-of-its-id",
                            f"a key filed only under a capital-letter spelling of its id is in the parsed table under {kid if kid in keys else kid.upper()}",
                            c, {"keys": list(keys)}, "entry dropped")
        for kid in c["meta"]["expect_ids"]:
            if kid not in keys:
                res.violate("key-table-drops-correct-entry", f"correctly filed key {kid} missing after parsing", c, {"keys": list(keys)}, None)


def alias_e2e(binpath, res, seed, n):
    rng = common.rng_for(seed, PROP, 78)
    W = scen.World(binpath)
    reqs, plans = [], []
    pool = ["ed2", "ed3", "edp1", "ec-b", "rsa-2048-a"]
    for i in range(n):
        k1, k2 = rng.sample(pool, 2)
        mode = rng.choice(["control", "sig_labelled_k1", "honest_label_k2", "inner_keyid_lies", "table_has_both", "both_authorised",
                           "unknown_key_next_to_known", "unknown_key_next_to_known", "label_in_capitals"])
        step = scen.mk_step("build", 1, [W.kid(k1)], [], [["ALLOW", "*"]], [["ALLOW", "*"]])
        if mode == "both_authorised":
            # K1 and K2 are both functionaries of a threshold-2 step; only K2 signs.  The file named for K1 carries K2's
            # signature once under K1's label and once under K2's own: nothing may be checked against, or counted for, K1
            step = scen.mk_step("build", 2, [W.kid(k1), W.kid(k2)], [], [["ALLOW", "*"]], [["ALLOW", "*"]])
        pub2 = W.pub(k2)
        if mode == "unknown_key_next_to_known":
            # K1 and K2 are functionaries of a threshold-1 step; K1's key is filed under a foreign identifier in the table (and
            # therefore unknown after reading), K2's is fine.  The file named for K1 carries K2's signature plus a worthless
            # entry attributed to K1; K2's own file is badly signed: nothing attributed to K1 is checked against K2's key
            step = scen.mk_step("build", 1, [W.kid(k1), W.kid(k2)], [], [["ALLOW", "*"]], [["ALLOW", "*"]])
        if mode == "unknown_key_next_to_known":
            table = {rng.choice(["ab" * 32, W.kid("ed0")]): W.pub(k1), W.kid(k2): W.pub(k2)}
        elif mode in ("control", "label_in_capitals"):
            table = {W.kid(k1): W.pub(k1)}
        elif mode == "inner_keyid_lies":
            pub2["keyid"] = W.kid(k1)
            table = {W.kid(k1): pub2}
        elif mode == "table_has_both":
            table = {W.kid(k1): pub2, W.kid(k2): W.pub(k2)}
        elif mode == "both_authorised":
            table = {W.kid(k1): W.pub(k1), W.kid(k2): W.pub(k2)}
        else:
            table = {W.kid(k1): pub2}
        layout = scen.mk_layout(W, [], [step], [], keys=table)
        plans.append((mode, k1, k2, len(reqs)))
        reqs.append((layout, ["ed0"], "new"))
        reqs.append((pipeline.leaf_link("build", 0), [k1 if mode in ("control", "label_in_capitals") else k2], "new"))
    wires = scen.sign_all(binpath, reqs, nproc=1)
    cases = []
    for mode, k1, k2, b in plans:
        lw, link = wires[b], copy.deepcopy(wires[b + 1])
        if mode in ("sig_labelled_k1", "inner_keyid_lies", "table_has_both"):
            link["signatures"][0]["keyid"] = W.kid(k1)
            fname = f"build.{W.pfx(k1)}.link"
        elif mode == "label_in_capitals":
            # K1's own, valid signature - attributed to the capital-letter spelling of K1's id, in the entry and in the file name
            link["signatures"][0]["keyid"] = W.kid(k1).upper()
            fname = f"build.{W.pfx(k1).upper()}.link" if rng.random() < 0.5 else f"build.{W.pfx(k1)}.link"
        elif mode == "honest_label_k2":
            fname = f"build.{W.pfx(k2)}.link"
        else:
            fname = f"build.{W.pfx(k1)}.link"
        files = {fname: scen.dumps(link)}
        if mode == "unknown_key_next_to_known":
            own = copy.deepcopy(link)
            s2 = own["signatures"][0]
            link["signatures"] = rng.choice([[{"keyid": W.kid(k1), "sig": "00" * 64}, s2], [s2, {"keyid": W.kid(k1), "sig": "00" * 64}],
                                             [{"keyid": W.kid(k1), "sig": s2["sig"]}]])
            bad = copy.deepcopy(own)
            bad["signatures"][0]["sig"] = bad["signatures"][0]["sig"][:-2] + ("00" if bad["signatures"][0]["sig"][-2:] != "00" else "01")
            files = {f"build.{W.pfx(k1)}.link": scen.dumps(link), f"build.{W.pfx(k2)}.link": scen.dumps(bad)}
        if mode == "both_authorised":
            own = copy.deepcopy(link)
            s2 = own["signatures"][0]
            link["signatures"] = rng.choice([[dict(s2, keyid=W.kid(k1)), s2], [s2, dict(s2, keyid=W.kid(k1))], [dict(s2, keyid=W.kid(k1))],
                                             [{"keyid": W.kid(k1), "sig": "00" * 64}, s2]])
            files = {f"build.{W.pfx(k1)}.link": scen.dumps(link), f"build.{W.pfx(k2)}.link": scen.dumps(own)}
        cases.append(scen.verify_case(lw, [[W.kid("ed0"), W.pub("ed0")]], files,
                                      meta={"mode": mode, "expect": "accept" if mode == "control" else "reject"}))
    obs = common.run_batch(binpath, cases)
    for c, o in zip(cases, obs):
        if scen.harness_failed(o):
            res.inconclusive.append(f"executor failure: {str(o)[:200]}")
            continue
        ok = o["runs"][0]["v"] == "ok"
        m = c["meta"]
        res.note([c["layout"], sorted(c["files"].items())], True, cls=[f"alias_e2e:{m['mode']}", "alias_e2e_observed:" + ("accept" if ok else "reject")])
        if ok and m["expect"] == "reject":
            res.violate(f"aliased-key-counted:{m['mode']}", f"a link signed by K2 was counted for identifier id(K1) ({m['mode']})", c, o, "reject")
        if not ok and m["expect"] == "accept":
            res.inconclusive.append(f"alias positive control rejected: {o['runs'][0].get('e')}")


def attribution_block(binpath, res, seed, n):
    """block-level attribution: a signature entry names the identifier it is attributed to; it is checked against the
    authorised key with that identifier and no other - not against a key with other material, and not against the same
    material described with another hash-algorithm list (another identifier)"""
    import jsongen
    rng = common.rng_for(seed, PROP, 79)
    W = scen.World(binpath)
    pool = ["ed2", "ed3", "edp1", "ec-b", "rsa-2048-a", "ed5", "edp2"]
    plans, reqs = [], []
    for i in range(n):
        k1, k2 = rng.sample(pool, 2)
        content = scen.mk_link(f"s{i}", {"a": scen.digest(i % 251)}, {"b": scen.digest(7)}, ["c"], {"return-value": 0})
        plans.append((k1, k2, content, len(reqs)))
        reqs.append((content, [k2], "new"))
    wires = scen.sign_all(binpath, reqs, nproc=1)
    cases = []
    for k1, k2, content, b in plans:
        sig2 = wires[b]["signatures"][0]
        pub2 = W.pub(k2)
        alt = copy.deepcopy(pub2)
        alt.pop("keyid", None)
        if "keyid_hash_algorithms" in alt:
            del alt["keyid_hash_algorithms"]
        else:
            alt["keyid_hash_algorithms"] = ["sha256", "sha512"]
        d = {"keytype": alt["keytype"], "scheme": alt["scheme"], "keyval": {"public": alt["keyval"]["public"]}}
        if "keyid_hash_algorithms" in alt:
            d["keyid_hash_algorithms"] = alt["keyid_hash_algorithms"]
        alt_id = hashlib.sha256(jsongen.olpc_canon(d).encode()).hexdigest()
        mode = rng.choice(["control", "control_alt", "labelled_other_key", "labelled_other_key_both_authorised", "labelled_other_description",
                           "labelled_own_checked_against_other_description"])
        if mode == "control":
            sigs, auth, exp = [sig2], [pub2], "accept"
        elif mode == "control_alt":
            sigs, auth, exp = [dict(sig2, keyid=alt_id)], [alt], "accept"
        elif mode == "labelled_other_key":
            sigs, auth, exp = [dict(sig2, keyid=W.kid(k1))], [pub2], "reject"
        elif mode == "labelled_other_key_both_authorised":
            sigs, auth, exp = [dict(sig2, keyid=W.kid(k1))], [W.pub(k1), pub2], "reject"
        elif mode == "labelled_other_description":
            sigs, auth, exp = [dict(sig2, keyid=alt_id)], [pub2], "reject"
        else:
            sigs, auth, exp = [sig2], [alt], "reject"
        cases.append({"op": "block", "text": json.dumps({"signatures": sigs, "signed": content}), "threshold": 1, "auth": auth,
                      "meta": {"kind": "attribution", "mode": mode, "expect": exp, "key": k2}})
    obs = common.run_batch(binpath, cases)
    for c, o in zip(cases, obs):
        m = c["meta"]
        if any(k in o for k in ("crash", "watchdog", "missing")) or o.get("parse") != "ok" or "auth_err" in o:
            res.inconclusive.append(f"attribution block case failed in the executor: {str(o)[:200]}")
            continue
        ok = o.get("verify") == "ok"
        res.note([c["text"], m["mode"]], True, cls=[f"attribution:{m['mode']}", "attribution_observed:" + ("accept" if ok else "reject")])
        if ok and m["expect"] == "reject":
            res.violate(f"signature-counted-for-another-identifier:{m['mode']}",
                        f"a signature entry attributed to one identifier was accepted for an authorised key with another identifier ({m['mode']}, key {m['key']})",
                        c, o, "reject")
        if not ok and m["expect"] == "accept":
            res.inconclusive.append(f"attribution positive control rejected ({m['mode']}): {o.get('verify')}")


def in_memory_table(binpath, res, seed, n):
    """a layout VALUE (not a text): built with the public builders, its key table re-keyed in memory through the public
    field - the entries of two keys change places - then signed by the owner and handed to the verifier as it is.  A link
    made by the key now filed under the functionary's identifier, relabelled with that identifier, counts for nothing:
    a signature attributed to X is checked against the key whose identifier is X"""
    rng = common.rng_for(seed, PROP, 80)
    W = scen.World(binpath)
    pool = ["ed2", "ed3", "edp1", "ec-b", "ed5"]
    plans, reqs = [], []
    for i in range(n):
        ka, km = rng.sample(pool, 2)
        mode = rng.choice(["control", "swapped_table_relabelled_link", "swapped_table_honest_link"])
        layout = scen.mk_layout(W, [ka, km], [scen.mk_step("build", 1, [W.kid(ka)], [], [["ALLOW", "*"]], [["ALLOW", "*"]])], [])
        plans.append((mode, ka, km, layout, len(reqs)))
        reqs += [(layout, ["ed0"], "new"), (pipeline.leaf_link("build", 0), [ka], "new"), (pipeline.leaf_link("build", 0), [km], "new")]
    wires = scen.sign_all(binpath, reqs, nproc=1)
    cases = []
    for mode, ka, km, layout, b in plans:
        if mode == "control":
            files = {f"build.{W.pfx(ka)}.link": scen.dumps(wires[b + 1])}
            bim = {"doc": layout, "signers": ["ed0"]}
            exp = "accept"
        else:
            lk = copy.deepcopy(wires[b + 2])
            if mode == "swapped_table_relabelled_link":
                lk["signatures"][0]["keyid"] = W.kid(ka)
            files = {f"build.{W.pfx(ka)}.link": scen.dumps(lk)}
            bim = {"doc": layout, "signers": ["ed0"], "mem_edit": "rekey_swap"}
            exp = "reject"
        c = scen.verify_case(wires[b], [[W.kid("ed0"), W.pub("ed0")]], files, meta={"mode": "in_memory:" + mode, "expect": exp})
        c["build_in_memory"] = bim
        cases.append(c)
    obs = common.run_batch(binpath, cases)
    for c, o in zip(cases, obs):
        if scen.harness_failed(o) or o["runs"][0]["v"] == "build_err":
            res.inconclusive.append(f"in-memory layout case failed in the executor: {str(o)[:300]}")
            continue
        ok = o["runs"][0]["v"] == "ok"
        m = c["meta"]
        res.note([c["layout"], sorted(c["files"].items()), m["mode"]], True, cls=[f"alias_e2e:{m['mode']}", "alias_e2e_observed:" + ("accept" if ok else "reject")])
        if ok and m["expect"] == "reject":
            res.violate(f"aliased-key-counted:{m['mode']}", f"a link made by the key filed (in memory) under the functionary's identifier was counted for it ({m['mode']})", c, o, "reject")
        if not ok and m["expect"] == "accept":
            res.inconclusive.append(f"in-memory positive control rejected: {o['runs'][0].get('e')}")


def main(ctx):
    res = common.Result()
    mats = pool_materials()
    if ctx.thorough:
        mats += fresh_materials(120, common.scratch_dir())
    cases = key_cases(ctx.bin, mats)
    obs = common.run_sharded(ctx.bin, cases)
    for c, o in zip(cases, obs):
        judge(c, o, res)
        res.note([c["meta"]["name"], c["meta"]["std_spki"]], True, cls=["keytype:" + c["meta"]["kind"]], n=len(c["paths"]))
    res.sample({"key": cases[0]["meta"]["name"], "paths": [p["how"] for p in cases[0]["paths"]],
                "ids": [o_.get("ok", {}).get("keyid", o_.get("err")) for o_ in obs[0].get("paths", [])]})
    table_checks(ctx.bin, res, ctx.seed, 300 if not ctx.thorough else 20000)
    alias_e2e(ctx.bin, res, ctx.seed, 200 if not ctx.thorough else 12000)
    attribution_block(ctx.bin, res, ctx.seed, 240 if not ctx.thorough else 12000)
    in_memory_table(ctx.bin, res, ctx.seed, 60 if not ctx.thorough else 3000)
    return common.finish(
        PROP, ctx.tier, ctx.seed, res, t0=ctx.t0,
        rule="pool keys (10 ed25519 incl. 2 made by OpenSSL, 3 P-256, 4 RSA 2048/3072/4096; thorough: +120 fresh OpenSSL keys) x "
             "construction paths {raw, keypair, PKCS#8, DER SPKI, PEM SPKI (LF/CRLF/no trailing newline), JSON} compared within "
             "each hash-algorithm-list variant; random layout key tables with entries filed under own/another/random/short "
             "ids; end-to-end aliasing scenarios; every case non-trivial; distinct by key material / document",
        assumptions=["OpenSSL's SubjectPublicKeyInfo encodings are the standards-conformant reference", "olpc_canon + SHA-256 (Python) is the independent key-id computation"],
        required=["alias_e2e:unknown_key_next_to_known", "keytype:ed25519", "keytype:ecdsa", "keytype:rsa", "path:ed25519:spki", "path:ed25519:pk8", "path:ecdsa:spki",
                  "path:rsa:pem", "path:rsa:json", "spki_reexport_identical:rsa", "spki_reexport_identical:ed25519",
                  "spki_reexport_identical:ecdsa", "key_table:parsed", "alias_e2e:control", "alias_e2e:sig_labelled_k1", "alias_e2e:both_authorised", "alias_e2e:in_memory:control", "alias_e2e:in_memory:swapped_table_relabelled_link", "attribution:control", "attribution:control_alt", "attribution:labelled_other_key",
                  "attribution:labelled_other_key_both_authorised", "attribution:labelled_other_description",
                  "attribution:labelled_own_checked_against_other_description",
                  "alias_e2e_observed:accept", "alias_e2e_observed:reject"],
        min_evals=300)
