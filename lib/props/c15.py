"""C15 — delegated sub-layouts are verified as strictly as the top-level layout.

Monitor: delegation trees of depth 1-3; one failure mode is injected into one delegated node
(ground truth by construction); violation = Ok although the inner verification must fail, or a
parent rule on the contributed evidence decides against the summary definition, or the returned
summary link differs from (first step's materials, last step's products, command, byproducts,
requested name).
"""
import copy
import json

import common
import pipeline
import scen

PROP = "C15"
MODES = ["none", "none", "none", "wrong_signer", "unauth_key", "key_of_other_step", "key_of_other_step",
         "inner_inspection_fails", "inner_inspection_rule_fails", "inner_inspection_passes", "inner_expired", "inner_link_missing", "inner_link_unauth",
         "inner_link_corrupt", "inner_rule_fail", "links_in_parent_dir", "links_in_other_key_dir",
         "links_in_other_step_dir", "parent_requires_summary_product", "parent_disallows_summary_product",
         "inner_unsigned", "inner_content_edited"]
FUNC = ["ed4", "ed5", "ed6", "edp2", "ec-b"]
OUTSIDER = "ed7"


def delegated(node, acc=None, depth=0, parent=None):
    """all (parent_node, step, evidence, depth) with evidence kind layout"""
    acc = [] if acc is None else acc
    for st in node["steps"]:
        for e in st["evidence"]:
            if e["kind"] == "layout":
                acc.append((node, st, e, depth))
                delegated(e["node"], acc, depth + 1, node)
    return acc


def norm(x):
    return json.dumps(x, sort_keys=True)


def judge(case, obs, res):
    m = case["meta"]
    if scen.harness_failed(obs):
        res.inconclusive.append(f"executor failure: {str(obs)[:200]}")
        return None
    oks = [x for x in obs["runs"] if x["v"] == "ok"]
    r = oks[0] if oks else obs["runs"][0]
    ok = bool(oks)
    if ok and m["expect"] == "reject":
        res.violate(f"accept:{m['mode']}", f"{len(oks)}/{len(obs['runs'])} verifications succeeded although a delegated sub-layout "
                    f"at depth {m['depth']} must fail: {m['mode']}", case, obs, "reject")
    if m["expect"] == "accept" and 0 < len(oks) < len(obs["runs"]):
        res.inconclusive.append(f"positive control accepted only {len(oks)}/{len(obs['runs'])} times ({m['mode']})")
    if (not ok) and m["expect"] == "accept":
        if m["mode"] == "parent_requires_summary_product":
            res.violate("summary-evidence-missing", "a parent REQUIRE of the delegated step's last product fails: the "
                        f"sub-layout did not contribute the expected evidence ({r.get('e')})", case, obs, "accept")
        else:
            res.inconclusive.append(f"positive control rejected ({m['mode']}): {r.get('e')}")
    if ok and m["expect"] == "accept":
        sg = next(x["summary"] for x in obs["runs"] if x["v"] == "ok" and x["summary"] != "=")["signed"]
        exp = m["summary"]
        for f in ("name", "materials", "products", "command", "byproducts"):
            if norm(sg.get(f)) != norm(exp[f]):
                res.violate(f"summary-differs:{f}", f"returned summary link field '{f}' is {norm(sg.get(f))[:200]}, "
                            f"expected {norm(exp[f])[:200]}", case, obs, exp)
    return ok


MULTI_VARIANTS = ["all_good", "all_good", "dir_missing", "dir_empty", "inner_link_unauth", "inner_link_corrupt", "inner_link_other_artifacts",
                  "inner_link_in_wrong_dir"]


def multi_delegation(rng, W):
    """a threshold-2 step whose two functionaries both delegate to the SAME sub-layout content (co-signed, or signed
    separately); every filing must be verified against its own sub-directory"""
    a, b = rng.sample(["ed4", "ed5", "ed6", "edp2"], 2)
    x = rng.choice(["ec-b", "ed1"])
    inner_step = scen.mk_step("compile", 1, [W.kid(x)], [], [["ALLOW", "*"]], [["ALLOW", "*"]])
    inner = scen.mk_layout(W, [x], [inner_step], [])
    parent = scen.mk_layout(W, [a, b], [scen.mk_step("build", 2, [W.kid(a), W.kid(b)], [], [["ALLOW", "*"]], [["ALLOW", "*"]])], [])
    cosigned = rng.random() < 0.5
    variant = rng.choice(MULTI_VARIANTS)
    bad = rng.choice([a, b])      # whose sub-directory is defective
    reqs = [(parent, ["ed0"], "new")]
    if cosigned:
        reqs.append((inner, [a, b], "builder"))
    else:
        reqs.append((inner, [a], "new"))
        reqs.append((inner, [b], "new"))
    good_link = pipeline.leaf_link("compile", 0)
    other_link = pipeline.leaf_link("compile", 0)
    other_link["products"]["out/o0"] = scen.digest(0x55)
    reqs.append((good_link, [x], "new"))
    reqs.append((good_link, ["ed7"], "new"))      # unauthorised signer
    reqs.append((other_link, [x], "new"))
    return {"a": a, "b": b, "x": x, "cosigned": cosigned, "variant": variant, "bad": bad, "reqs": reqs, "good_link": good_link}


def multi_case(W, sc, wires, base):
    a, b, x = sc["a"], sc["b"], sc["x"]
    i = base + 1
    if sc["cosigned"]:
        subs = {a: wires[i], b: wires[i]}
        i += 1
    else:
        subs = {a: wires[i], b: wires[i + 1]}
        i += 2
    good, unauth, other = wires[i], wires[i + 1], wires[i + 2]
    files = {}
    for k in (a, b):
        files[f"build.{W.pfx(k)}.link"] = scen.dumps(subs[k])
        d = f"build.{W.pfx(k)}/"
        v = sc["variant"] if k == sc["bad"] else "all_good"
        if v == "all_good":
            files[d + f"compile.{W.pfx(x)}.link"] = scen.dumps(good)
        elif v == "dir_missing":
            pass
        elif v == "dir_empty":
            files[d + "placeholder"] = {"dir": True}
        elif v == "inner_link_unauth":
            files[d + f"compile.{W.pfx('ed7')}.link"] = scen.dumps(unauth)
        elif v == "inner_link_corrupt":
            w = copy.deepcopy(good)
            bts = bytearray(bytes.fromhex(w["signatures"][0]["sig"]))
            bts[1] ^= 0x40
            w["signatures"][0]["sig"] = bytes(bts).hex()
            files[d + f"compile.{W.pfx(x)}.link"] = scen.dumps(w)
        elif v == "inner_link_other_artifacts":
            files[d + f"compile.{W.pfx(x)}.link"] = scen.dumps(other)
        elif v == "inner_link_in_wrong_dir":
            files[f"build.{W.pfx('ed7')}/compile.{W.pfx(x)}.link"] = scen.dumps(good)
    gl = sc["good_link"]
    summary = {"name": "", "materials": gl["materials"], "products": gl["products"], "command": gl["command"], "byproducts": gl["byproducts"]}
    expect = "accept" if sc["variant"] == "all_good" else "reject"
    meta = {"mode": "multi_delegation:" + sc["variant"], "expect": expect, "depth": 1, "tree_depth": 1, "summary": summary,
            "cosigned": sc["cosigned"]}
    return scen.verify_case(wires[base], [[W.kid("ed0"), W.pub("ed0")]], files, reps=8, meta=meta)


def shard(binpath, seed, sh, n):
    rng = common.rng_for(seed, PROP, sh)
    W = scen.World(binpath)
    res = common.Result()
    scs, reqs = [], []
    for i in range(n):
        depth = rng.choice([1, 1, 2, 3])
        for _ in range(20):
            # step names - which become file and directory names - with dots, blanks and non-ASCII letters too
            nst = rng.choice([1, 2, 3])
            node = pipeline.make_node(rng, W, depth, ["ed0"], FUNC, nsteps=nst, delegate_prob=0.6,
                                      names=rng.sample(pipeline.STEP_NAMES + ["pkg.deb", "build.v2", "x.y.z", "a.b"], nst))
            dl = delegated(node)
            if dl:
                break
        else:
            continue
        mode = rng.choice(MODES)
        parent, st, e, d = rng.choice(dl)
        child = e["node"]
        tamper = {}
        expect = "reject"
        if mode == "none":
            expect = "accept"
        elif mode == "wrong_signer":
            child["signers"] = [rng.choice([k for k in FUNC if k != e["key"]])]
        elif mode == "unauth_key":
            # evidence by a key that is not authorised for the step (and not in the key table)
            e["key"] = OUTSIDER
            child["signers"] = [OUTSIDER]
        elif mode == "key_of_other_step":
            # the sub-layout is signed and filed by a functionary whom the parent layout knows (key table) but has NOT
            # authorised for this step
            others = [k for k in FUNC if k not in st["auth"]]
            if not others:
                mode, expect = "none", "accept"
            else:
                k2 = rng.choice(others)
                e["key"] = k2
                child["signers"] = [k2]
                if W.kid(k2) not in parent["layout"]["keys"]:
                    parent["layout"]["keys"][W.kid(k2)] = W.pub(k2)
        elif mode in ("inner_inspection_fails", "inner_inspection_rule_fails", "inner_inspection_passes"):
            # the delegated layout carries an inspection of its own: complete verification includes running it
            if mode == "inner_inspection_fails":
                insp = scen.mk_inspection("inner-check", ["sh", "-c", "exit 3"], [["ALLOW", "*"]], [["ALLOW", "*"]])
            elif mode == "inner_inspection_rule_fails":
                insp = scen.mk_inspection("inner-check", ["sh", "-c", "echo x > made-by-inspection"], [["ALLOW", "*"]],
                                          [["DISALLOW", "made-by-inspection"], ["ALLOW", "*"]])
            else:
                insp = scen.mk_inspection("inner-check", ["sh", "-c", "true"], [["ALLOW", "*"]], [["ALLOW", "*"]])
                expect = "accept"
            child["layout"]["inspect"] = [insp]
        elif mode == "inner_expired":
            # long ago, or only just (seconds, hours, almost a day)
            import datetime
            ago = rng.choice([None, 20, 3600, 7200, 23 * 3600, 86400 + 60])
            child["layout"]["expires"] = "2020-01-01T00:00:00Z" if ago is None else scen.iso(
                datetime.datetime.now(datetime.timezone.utc) - datetime.timedelta(seconds=ago))
            sc_note = "long_ago" if ago is None else ("within_a_day" if ago < 86400 else "over_a_day")
        elif mode == "inner_link_missing":
            ist = rng.choice(child["steps"])
            ist["evidence"][0]["absent"] = True
        elif mode == "inner_link_unauth":
            ist = rng.choice(child["steps"])
            ie = ist["evidence"][0]
            if ie["kind"] == "link":
                ie["signers"] = [OUTSIDER]
                ie["key"] = OUTSIDER
            else:
                ie["node"]["signers"] = [OUTSIDER]
                ie["key"] = OUTSIDER
        elif mode == "inner_link_corrupt":
            ist = rng.choice(child["steps"])
            tamper["flip"] = id(ist["evidence"][0])
        elif mode == "inner_rule_fail":
            # inner step whose products are disallowed
            ist = rng.choice(child["steps"])
            for sdoc in child["layout"]["steps"]:
                if sdoc["name"] == ist["name"]:
                    sdoc["expected_products"] = [["DISALLOW", "*"]]
        elif mode == "links_in_parent_dir":
            e["dir"] = "."
        elif mode == "links_in_other_key_dir":
            other = rng.choice([k for k in FUNC if k != e["key"]])
            e["dir"] = f"{st['name']}.{W.pfx(other)}"
        elif mode == "links_in_other_step_dir":
            e["dir"] = f"other-step.{W.pfx(e['key'])}"
        elif mode in ("parent_requires_summary_product", "parent_disallows_summary_product"):
            summ = pipeline.summary_of(child, st["name"])
            prod = sorted(summ["products"])[-1] if summ["products"] else None
            if prod is None:
                mode, expect = "none", "accept"
            else:
                for sdoc in parent["layout"]["steps"]:
                    if sdoc["name"] == st["name"]:
                        if mode == "parent_requires_summary_product":
                            sdoc["expected_products"] = [["REQUIRE", prod], ["ALLOW", "*"]]
                            expect = "accept"
                        else:
                            sdoc["expected_products"] = [["DISALLOW", prod], ["ALLOW", "*"]]
        elif mode == "inner_unsigned":
            child["signers"] = []
        elif mode == "inner_content_edited":
            tamper["edit"] = id(e)
        # an inner node without steps and without its own links cannot fail through its link directory
        if mode.startswith("links_in_") and not child["steps"]:
            expect = "accept"
        step_name = rng.choice([None, "final", ""])
        def shape(nd):
            return [[s_["name"]] + [("L" if e_["kind"] == "link" else shape(e_["node"])) for e_ in s_["evidence"]] for s_ in nd["steps"]]
        if mode != "inner_expired":
            sc_note = None
        sc = {"node": node, "mode": mode, "expect": expect, "note": sc_note, "depth": d + 1, "tamper": tamper, "step_name": step_name,
              "target": st["name"], "shape": shape(node),
              "tree_depth": depth, "ndelegated": len(dl)}
        sc["base"] = len(reqs)
        pipeline.collect_requests(node, reqs)
        scs.append(sc)
    multis = []
    for i in range(max(4, n // 4)):
        msc = multi_delegation(rng, W)
        msc["base"] = len(reqs)
        reqs.extend(msc["reqs"])
        multis.append(msc)
    wires = scen.sign_all(binpath, reqs, nproc=1)
    cases = [multi_case(W, msc, wires, msc["base"]) for msc in multis]
    for sc in scs:
        node, tamper = sc["node"], sc["tamper"]

        def post(e, w, tamper=tamper):
            if tamper.get("flip") == id(e):
                w = copy.deepcopy(w)
                b = bytearray(bytes.fromhex(w["signatures"][0]["sig"]))
                b[3] ^= 0x10
                w["signatures"][0]["sig"] = bytes(b).hex()
            if tamper.get("edit") == id(e):
                w = copy.deepcopy(w)
                w["signed"]["readme"] = "edited after signing"
            return w
        files = tree_files_dot(W, node, wires, post)
        if any(k.endswith("__collision__") for k in files):
            # misplaced inner files overwrote other evidence: the scenario no longer means what it was built for
            res.classes["scenario_dropped_file_name_collision"] += 1
            continue
        summary = pipeline.summary_of(node, sc["step_name"] or "")
        meta = {"mode": sc["mode"], "expect": sc["expect"], "depth": sc["depth"], "tree_depth": sc["tree_depth"], "note": sc.get("note"),
                "summary": summary, "ndelegated": sc["ndelegated"], "target": sc["target"], "shape": sc["shape"]}
        cases.append(scen.verify_case(wires[node["req"]], [[W.kid("ed0"), W.pub("ed0")]], files,
                                      step_name=sc["step_name"], meta=meta))
    obs = common.run_batch(binpath, cases)
    for c, o in zip(cases, obs):
        m = c["meta"]
        ok = judge(c, o, res)
        if ok is None:
            continue
        cls = [f"mode:{m['mode']}", f"depth:{m['depth']}", f"tree_depth:{m['tree_depth']}", "accepted" if ok else "rejected"]
        if m.get("note"):
            cls.append(f"inner_expired:{m['note']}")
        if ok and m["expect"] == "accept":
            cls += ["positive_control_accepted", f"positive_at_tree_depth:{m['tree_depth']}", "summary_compared"]
        res.note([c["layout"], sorted(c["files"].items())], True, cls=cls)
    if sh == 0:
        for c, o in list(zip(cases, obs))[:3]:
            res.sample({"meta": {k: v for k, v in c["meta"].items() if k != "summary"}, "files": sorted(c["files"]),
                        "verdict": scen.verdicts(o), "error": o["runs"][0].get("e")})
    return res


def tree_files_dot(W, node, wires, post, prefix="", files=None):
    """pipeline.tree_files with dir '.' meaning 'the parent's own directory'; any file-name collision
    (possible only for misplaced inner files) is flagged with the pseudo entry __collision__"""
    files = {} if files is None else files

    def put(k, v):
        if k in files:
            files["__collision__"] = "1"
        files[k] = v
    for st in node["steps"]:
        for e in st["evidence"]:
            if e.get("absent"):
                continue
            fname = f"{st['name']}.{W.pfx(e.get('file_key', e['key']))}.link"
            if e["kind"] == "link":
                put(prefix + fname, scen.dumps(post(e, wires[e["req"]])))
            else:
                put(prefix + fname, scen.dumps(post(e, wires[e["node"]["req"]])))
                d = e.get("dir") or f"{st['name']}.{W.pfx(e['key'])}"
                sub = prefix if d == "." else prefix + d + "/"
                tree_files_dot(W, e["node"], wires, post, sub, files)
    return files


def outside_links(binpath, res, seed, n):
    """inner step names with relative path components ("../compile", "../other.0a1b2c3d/compile"): the only link for such
    a step lies OUTSIDE the sub-layout's dedicated directory, at the place the name points to (the parent directory, a
    sibling directory); the dedicated directory exists and is empty.  Evidence from outside never satisfies the sub-layout."""
    rng = common.rng_for(seed, PROP, 4242)
    W = scen.World(binpath)
    reqs, plans = [], []
    for i in range(n):
        kd, ka = rng.sample(FUNC, 2)
        mode = rng.choice(["control", "parent_dir", "sibling_dir", "parent_dir_two_inner_steps"])
        inner_name = {"control": "compile", "parent_dir": "../compile", "sibling_dir": "../other.0a1b2c3d/compile",
                      "parent_dir_two_inner_steps": "../compile"}[mode]
        inner_steps = [scen.mk_step(inner_name, 1, [W.kid(ka)], [], [["ALLOW", "*"]], [["ALLOW", "*"]])]
        if mode == "parent_dir_two_inner_steps":
            inner_steps.insert(0, scen.mk_step("fetch", 1, [W.kid(ka)], [], [["ALLOW", "*"]], [["ALLOW", "*"]]))
        inner = scen.mk_layout(W, [ka], inner_steps, [])
        top = scen.mk_layout(W, [kd], [scen.mk_step("build", 1, [W.kid(kd)], [], [["ALLOW", "*"]], [["ALLOW", "*"]])], [])
        plans.append((mode, kd, ka, inner_name, len(reqs)))
        reqs.append((top, ["ed0"], "new"))
        reqs.append((inner, [kd], "new"))
        reqs.append((pipeline.leaf_link(inner_name, 0), [ka], "new"))
        reqs.append((pipeline.leaf_link("fetch", 0), [ka], "new"))
    wires = scen.sign_all(binpath, reqs, nproc=1)
    cases = []
    for mode, kd, ka, inner_name, b in plans:
        d = f"build.{W.pfx(kd)}"
        files = {f"{d}.link": scen.dumps(wires[b + 1])}
        if mode == "control":
            files[f"{d}/compile.{W.pfx(ka)}.link"] = scen.dumps(wires[b + 2])
        else:
            files[f"{d}/.keep"] = "the dedicated directory exists"
            where = "" if mode.startswith("parent_dir") else "other.0a1b2c3d/"
            files[f"{where}compile.{W.pfx(ka)}.link"] = scen.dumps(wires[b + 2])
            if mode == "parent_dir_two_inner_steps":
                files[f"{d}/fetch.{W.pfx(ka)}.link"] = scen.dumps(wires[b + 3])
        cases.append(scen.verify_case(wires[b], [[W.kid("ed0"), W.pub("ed0")]], files,
                                      meta={"mode": "outside:" + mode, "expect": "accept" if mode == "control" else "reject"}))
    obs = common.run_batch(binpath, cases)
    for c, o in zip(cases, obs):
        if scen.harness_failed(o):
            res.inconclusive.append(f"executor failure: {str(o)[:200]}")
            continue
        m = c["meta"]
        ok = o["runs"][0]["v"] == "ok"
        res.note([c["layout"], sorted(c["files"])], True, cls=[f"mode:{m['mode']}", "accepted" if ok else "rejected"])
        if ok and m["expect"] == "reject":
            res.violate(f"accept:{m['mode']}", f"a sub-layout was satisfied by a link file outside its dedicated sub-directory ({m['mode']}; files {sorted(c['files'])})",
                        c, o, "reject")
        if not ok and m["expect"] == "accept":
            res.inconclusive.append(f"outside-links positive control rejected: {o['runs'][0].get('e')}")


PATTERN_NAMES = [("pkg*", "pkg-other"), ("build?", "buildX"), ("rel[1]", "rel1"), ("a[!b]c", "axc"), ("x**y", "x-z-y"), ("plain", "plain-other")]


def pattern_names(binpath, res, seed):
    """step names that happen to contain characters a file-name pattern would interpret (`*`, `?`, `[..]`): the dedicated
    directory of such a delegated step is the one that carries exactly its name; inner links lying in a sibling directory
    whose name merely *matches* it as a pattern are outside evidence"""
    rng = common.rng_for(seed, PROP, 4343)
    W = scen.World(binpath)
    reqs, plans = [], []
    for name, sibling in PATTERN_NAMES:
        for mode in ("control", "sibling_dir", "sibling_dir_dedicated_missing"):
            kd, ka = rng.sample(FUNC, 2)
            inner = scen.mk_layout(W, [ka], [scen.mk_step("compile", 1, [W.kid(ka)], [], [["ALLOW", "*"]], [["ALLOW", "*"]])], [])
            top = scen.mk_layout(W, [kd], [scen.mk_step(name, 1, [W.kid(kd)], [], [["ALLOW", "*"]], [["ALLOW", "*"]])], [])
            plans.append((name, sibling, mode, kd, ka, len(reqs)))
            reqs.append((top, ["ed0"], "new"))
            reqs.append((inner, [kd], "new"))
            reqs.append((pipeline.leaf_link("compile", 0), [ka], "new"))
    wires = scen.sign_all(binpath, reqs, nproc=1)
    cases = []
    for name, sibling, mode, kd, ka, b in plans:
        d = f"{name}.{W.pfx(kd)}"
        files = {f"{d}.link": scen.dumps(wires[b + 1])}
        if mode == "control":
            files[f"{d}/compile.{W.pfx(ka)}.link"] = scen.dumps(wires[b + 2])
        else:
            if mode == "sibling_dir":
                files[f"{d}/.keep"] = "the dedicated directory exists"
            files[f"{sibling}.{W.pfx(kd)}/compile.{W.pfx(ka)}.link"] = scen.dumps(wires[b + 2])
        cases.append(scen.verify_case(wires[b], [[W.kid("ed0"), W.pub("ed0")]], files,
                                      meta={"mode": "pattern_name:" + mode, "name": name, "expect": "either" if mode == "control" else "reject"}))
    obs = common.run_batch(binpath, cases)
    for c, o in zip(cases, obs):
        if scen.harness_failed(o):
            res.inconclusive.append(f"executor failure: {str(o)[:200]}")
            continue
        m = c["meta"]
        ok = o["runs"][0]["v"] == "ok"
        res.note([c["layout"], sorted(c["files"])], True, cls=[f"mode:{m['mode']}", f"mode:{m['mode']}:" + ("accepted" if ok else "rejected")])
        if ok and m["expect"] == "reject" and m["name"] != "plain":
            res.violate(f"accept:{m['mode']}", f"the sub-layout of step {m['name']!r} was satisfied by link files from a directory that is not its dedicated one "
                        f"(files {sorted(c['files'])})", c, o, "reject")
        if ok and m["expect"] == "reject" and m["name"] == "plain":
            res.violate(f"accept:{m['mode']}:plain_name", f"a sub-layout was satisfied by link files from a sibling directory (files {sorted(c['files'])})", c, o, "reject")
        if not ok and m["name"] == "plain" and m["mode"] == "pattern_name:control":
            res.inconclusive.append(f"pattern-names positive control rejected: {o['runs'][0].get('e')}")


def inspection_named_like_step(binpath, res, seed):
    """names need not be unique: an inspection may carry the name of the layout's first or last step.  The summary is
    still made of the *steps'* evidence - the inspection's own link (what it found in the working directory, its command,
    its output) is no part of it - at the top level and for a sub-layout's contribution alike"""
    rng = common.rng_for(seed, PROP, 4444)
    W = scen.World(binpath)
    reqs, plans = [], []
    for level in ("top", "delegated"):
        for like in ("last", "first", "only", "none"):
            for sn in (None, "final"):
                kd, ka, kb = rng.sample(FUNC, 3)
                names = ["compile"] if like == "only" else ["fetch", "compile"]
                iname = {"last": names[-1], "first": names[0], "only": names[0], "none": "check"}[like]
                steps = [scen.mk_step(nm, 1, [W.kid(ka)], [], [["ALLOW", "*"]], [["ALLOW", "*"]]) for nm in names]
                insp = [scen.mk_inspection(iname, ["sh", "-c", "echo found > inspected.txt; echo noise"], [["ALLOW", "*"]], [["ALLOW", "*"]])]
                inner = scen.mk_layout(W, [ka], steps, insp)
                b = len(reqs)
                if level == "top":
                    reqs.append((inner, ["ed0"], "new"))
                    reqs.append((inner, ["ed0"], "new"))
                else:
                    top = scen.mk_layout(W, [kd], [scen.mk_step("build", 1, [W.kid(kd)], [], [["ALLOW", "*"]], [["ALLOW", "*"]])], [])
                    reqs.append((top, ["ed0"], "new"))
                    reqs.append((inner, [kd], "new"))
                docs = [pipeline.leaf_link(nm, j) for j, nm in enumerate(names)]
                for d in docs:
                    reqs.append((d, [ka], "new"))
                plans.append((level, like, sn, kd, ka, names, docs, b))
    wires = scen.sign_all(binpath, reqs, nproc=1)
    cases = []
    for level, like, sn, kd, ka, names, docs, b in plans:
        pre = f"build.{W.pfx(kd)}/" if level == "delegated" else ""
        files = {pre + f"{nm}.{W.pfx(ka)}.link": scen.dumps(wires[b + 2 + j]) for j, nm in enumerate(names)}
        if level == "delegated":
            files[f"build.{W.pfx(kd)}.link"] = scen.dumps(wires[b + 1])
        want = {"materials": docs[0]["materials"], "products": docs[-1]["products"], "command": docs[-1]["command"],
                "byproducts": docs[-1]["byproducts"], "name": sn or ""}
        cases.append(scen.verify_case(wires[b], [[W.kid("ed0"), W.pub("ed0")]], files, work_files={"pre.txt": "x\n"}, step_name=sn,
                                      meta={"level": level, "like": like, "want": want}))
    obs = common.run_batch(binpath, cases)
    for c, o in zip(cases, obs):
        m = c["meta"]
        if scen.harness_failed(o):
            res.inconclusive.append(f"executor failure: {str(o)[:200]}")
            continue
        r = o["runs"][0]
        res.note([c["layout"], sorted(c["files"])], True, cls=[f"inspection_named_like_step:{m['like']}:{m['level']}", "inspection_named_like_step:" + r["v"]])
        if r["v"] != "ok":
            if m["like"] == "none":
                res.inconclusive.append(f"inspection_named_like_step control rejected: {r.get('e')}")
            continue
        sg = r["summary"]["signed"]
        for fld in ("materials", "products", "command", "byproducts", "name"):
            got = sg.get(fld)
            if norm(got) != norm(m["want"][fld]):
                res.violate(f"summary-differs:{fld}:inspection_named_like_{m['like']}_step:{m['level']}",
                            f"the returned summary's {fld} are not those of the layout's {'first' if fld == 'materials' else 'last'} step "
                            f"(an inspection carries the name of the {m['like']} step): got {json.dumps(got)[:300]}, expected {json.dumps(m['want'][fld])[:300]}",
                            c, o, m["want"])
                break


def forged_inner_attribution(binpath, res, seed):
    """a sub-layout whose inner step needs two functionaries; only one of them signed.  The file named for the other holds
    the first one's link with an additional worthless entry attributed to the missing functionary: the inner threshold is
    not met, so the delegated step is not satisfied (at depth 1 and 2, and at the top level as a control of the same rule)"""
    rng = common.rng_for(seed, PROP, 4545)
    W = scen.World(binpath)
    reqs, plans = [], []
    for i in range(12):
        kd, k1, k2 = rng.sample(FUNC, 3)
        level = ["delegated", "delegated", "top"][i % 3]
        variant = rng.choice(["forged_entry_first", "forged_entry_last", "relabelled_only", "honest_both"])
        inner = scen.mk_layout(W, [k1, k2], [scen.mk_step("compile", 2, [W.kid(k1), W.kid(k2)], [], [["ALLOW", "*"]], [["ALLOW", "*"]])], [])
        b = len(reqs)
        if level == "delegated":
            top = scen.mk_layout(W, [kd], [scen.mk_step("build", 1, [W.kid(kd)], [], [["ALLOW", "*"]], [["ALLOW", "*"]])], [])
            reqs.append((top, ["ed0"], "new"))
            reqs.append((inner, [kd], "new"))
        else:
            reqs.append((inner, ["ed0"], "new"))
            reqs.append((inner, ["ed0"], "new"))
        reqs.append((pipeline.leaf_link("compile", 0), [k2], "new"))
        reqs.append((pipeline.leaf_link("compile", 0), [k1], "new"))
        plans.append((level, variant, kd, k1, k2, b))
    wires = scen.sign_all(binpath, reqs, nproc=1)
    cases = []
    for level, variant, kd, k1, k2, b in plans:
        pre = f"build.{W.pfx(kd)}/" if level == "delegated" else ""
        own2 = wires[b + 2]
        s2 = own2["signatures"][0]
        forged = copy.deepcopy(own2)
        junk = {"keyid": W.kid(k1), "sig": rng.choice(["00" * 64, s2["sig"], "ab" * 64])}
        if variant == "forged_entry_first":
            forged["signatures"] = [junk, s2]
        elif variant == "forged_entry_last":
            forged["signatures"] = [s2, junk]
        elif variant == "relabelled_only":
            forged["signatures"] = [dict(s2, keyid=W.kid(k1))]
        else:
            forged = wires[b + 3]
        files = {pre + f"compile.{W.pfx(k2)}.link": scen.dumps(own2), pre + f"compile.{W.pfx(k1)}.link": scen.dumps(forged)}
        if level == "delegated":
            files[f"build.{W.pfx(kd)}.link"] = scen.dumps(wires[b + 1])
        cases.append(scen.verify_case(wires[b], [[W.kid("ed0"), W.pub("ed0")]], files, reps=2,
                                      meta={"level": level, "variant": variant, "expect": "accept" if variant == "honest_both" else "reject"}))
    obs = common.run_batch(binpath, cases)
    for c, o in zip(cases, obs):
        m = c["meta"]
        if scen.harness_failed(o):
            res.inconclusive.append(f"executor failure: {str(o)[:200]}")
            continue
        ok = any(r["v"] == "ok" for r in o["runs"])
        res.note([c["layout"], sorted(c["files"].items())], True, cls=[f"forged_inner_attribution:{m['level']}", "forged_inner_attribution:" + ("accepted" if ok else "rejected")], n=2)
        if ok and m["expect"] == "reject":
            res.violate(f"accept:forged_inner_attribution:{m['variant']}:{m['level']}",
                        f"the threshold-2 inner step was satisfied by ONE functionary: the file named for the other holds the first one's link "
                        f"({m['variant'].replace('_', ' ')}) - {'the sub-layout, hence the delegated step, must fail' if m['level'] == 'delegated' else 'verification must fail'}",
                        c, o, "reject")
        if not ok and m["expect"] == "accept":
            res.inconclusive.append(f"forged_inner_attribution positive control rejected: {o['runs'][0].get('e')}")


def expiry_history(binpath, res, seed):
    """one process: a delegation tree whose sub-layout is still valid verifies; another verification fails; real time passes
    until the sub-layout's expiry is over; the tree is verified again (also one with the same shape that was never verified
    before).  A step is not satisfied by an expired sub-layout, whatever the process did earlier"""
    import datetime
    rng = common.rng_for(seed, PROP, 4343)
    W = scen.World(binpath)
    now = datetime.datetime.now(datetime.timezone.utc)
    T = (now + datetime.timedelta(seconds=7)).replace(microsecond=0)
    reqs, nodes = [], []
    for i in range(3):
        nd = pipeline.make_node(rng, W, 1, ["ed0"], FUNC, nsteps=2, delegate_prob=1.0)
        nd["steps"][i % 2]["evidence"][0]["node"]["layout"]["expires"] = scen.iso(T)
        pipeline.collect_requests(nd, reqs)
        nodes.append(nd)
    wires = scen.sign_all(binpath, reqs, nproc=1)
    keys = [[W.kid("ed0"), W.pub("ed0")]]
    exp_ns = int(T.timestamp()) * 10 ** 9
    seq = []
    files = [pipeline.tree_files(W, nd, wires) for nd in nodes]
    seq.append(scen.verify_case(wires[nodes[0]["req"]], keys, files[0], meta={"mode": "history:while_valid", "expect": "accept"}))
    seq.append(scen.verify_case(wires[nodes[1]["req"]], keys, {}, meta={"mode": "history:failing_verification", "expect": "reject"}))
    seq.append(scen.verify_case(wires[nodes[1]["req"]], keys, {k: v[:len(v) // 2] for k, v in files[1].items()}, meta={"mode": "history:failing_verification", "expect": "reject"}))
    for j in (0, 1, 2):
        c = scen.verify_case(wires[nodes[j]["req"]], keys, files[j], meta={"mode": "history:after_expiry:" + ["verified_before", "failed_before", "never_seen"][j], "expect": "reject"})
        c["not_before_ns"] = str(exp_ns + 400_000_000)
        seq.append(c)
    obs = common.run_batch(binpath, seq)
    for c, o in zip(seq, obs):
        if scen.harness_failed(o):
            res.inconclusive.append(f"executor failure: {str(o)[:200]}")
            return
        m = c["meta"]
        ok = o["runs"][0]["v"] == "ok"
        t0 = int(o["runs"][0].get("t0", 0))
        res.note([m["mode"], c["layout"][:60]], True, cls=[f"mode:{m['mode']}", "accepted" if ok else "rejected"])
        if m["mode"] == "history:while_valid":
            if not ok and t0 < exp_ns:
                res.inconclusive.append(f"history control (still valid) rejected: {o['runs'][0].get('e')}")
        elif m["mode"].startswith("history:after_expiry") and ok and t0 > exp_ns:
            res.violate("accept:expired-sub-layout-after-earlier-verifications", f"a step was satisfied by a sub-layout that expired {((t0 - exp_ns) / 1e9):.2f}s "
                        f"before the call ({m['mode']})", c, o, "reject")


def surplus_inner_links(binpath, res, seed, n):
    """a (sub-)layout whose first / last step has two authorised functionaries and threshold 1, each with a valid link, and
    the links differ: one of them records an artifact the step's own rules disallow.  Which link stands for the step is the
    implementation's choice - but the evidence handed upwards (and returned) is that of a link which passed the step's
    rules: the disallowed artifact never shows up in a summary"""
    import pipeline
    rng = common.rng_for(seed, PROP, 6600)
    W = scen.World(binpath)
    POOL = ["ed2", "ed3", "ed4", "ed5", "ed6", "edp1", "edp2", "ec-b"]
    plans, reqs = [], []
    for i in range(n):
        f, k1, a, b = rng.sample(POOL, 4)
        where = rng.choice(["last_products", "first_materials"])
        level = rng.choice(["delegated", "delegated", "top"])
        bad_is = rng.choice(["smaller_id", "larger_id"])
        lo, hi = sorted([a, b], key=lambda k: W.kid(k))
        bad = lo if bad_is == "smaller_id" else hi
        rule_m = [["DISALLOW", "backdoor.so"], ["ALLOW", "*"]] if where == "first_materials" else [["ALLOW", "*"]]
        rule_p = [["DISALLOW", "backdoor.so"], ["ALLOW", "*"]] if where == "last_products" else [["ALLOW", "*"]]
        if where == "last_products":
            st = [scen.mk_step("fetch", 1, [W.kid(k1)], [], [["ALLOW", "*"]], [["ALLOW", "*"]]),
                  scen.mk_step("compile", 1, [W.kid(a), W.kid(b)], [], [["ALLOW", "*"]], rule_p)]
            multi, single, mi = "compile", "fetch", 1
        else:
            st = [scen.mk_step("fetch", 1, [W.kid(a), W.kid(b)], [], rule_m, [["ALLOW", "*"]]),
                  scen.mk_step("compile", 1, [W.kid(k1)], [], [["ALLOW", "*"]], [["ALLOW", "*"]])]
            multi, single, mi = "fetch", "compile", 0
        inner = scen.mk_layout(W, [k1, a, b], st, [])
        good_doc = pipeline.leaf_link(multi, mi)
        bad_doc = copy.deepcopy(good_doc)
        bad_doc["materials" if where == "first_materials" else "products"]["backdoor.so"] = scen.digest(0x6b)
        base = len(reqs)
        if level == "delegated":
            outer = scen.mk_layout(W, [f], [scen.mk_step("build", 1, [W.kid(f)], [], [["ALLOW", "*"]], [["ALLOW", "*"]])], [])
            reqs.append((outer, ["ed0"], "new"))
            reqs.append((inner, [f], "new"))
        else:
            reqs.append((inner, ["ed0"], "new"))
            reqs.append((inner, ["ed0"], "new"))
        reqs.append((pipeline.leaf_link(single, 1 - mi), [k1], "new"))
        reqs.append((good_doc if bad != a else bad_doc, [a], "new"))
        reqs.append((good_doc if bad != b else bad_doc, [b], "new"))
        plans.append((base, level, where, bad_is, f, k1, a, b, multi, single))
    wires = scen.sign_all(binpath, reqs, nproc=1)
    cases = []
    for base, level, where, bad_is, f, k1, a, b, multi, single in plans:
        pre = f"build.{W.pfx(f)}/" if level == "delegated" else ""
        files = {pre + f"{single}.{W.pfx(k1)}.link": scen.dumps(wires[base + 2]),
                 pre + f"{multi}.{W.pfx(a)}.link": scen.dumps(wires[base + 3]),
                 pre + f"{multi}.{W.pfx(b)}.link": scen.dumps(wires[base + 4])}
        if level == "delegated":
            files[f"build.{W.pfx(f)}.link"] = scen.dumps(wires[base + 1])
        sn = rng.choice([None, "release"])
        cases.append(scen.verify_case(wires[base], [[W.kid("ed0"), W.pub("ed0")]], files, reps=12, step_name=sn,
                                      meta={"level": level, "where": where, "bad_is": bad_is}))
    obs = common.run_batch(binpath, cases)
    for c, o in zip(cases, obs):
        m = c["meta"]
        if scen.harness_failed(o):
            res.inconclusive.append(f"executor failure: {str(o)[:200]}")
            continue
        oks, leaked, last = 0, 0, None
        for r in o["runs"]:
            if r["v"] != "ok":
                continue
            oks += 1
            sm = r["summary"] if r["summary"] != "=" else last
            last = sm
            sg = sm["signed"]
            if "backdoor.so" in sg["materials"] or "backdoor.so" in sg["products"]:
                leaked += 1
        if leaked:
            res.violate(f"summary-carries-evidence-that-failed-the-rules:{m['level']}:{m['where']}",
                        f"{leaked} of {oks} successful verifications returned a summary containing 'backdoor.so', which the "
                        f"{'sub-' if m['level'] == 'delegated' else ''}layout's own rule for that step disallows (the link of the functionary with the "
                        f"{m['bad_is'].replace('_', ' ')} records it; threshold 1, two authorised links)", c, o, "summary of rule-checked evidence")
        res.note([c["layout"], sorted(c["files"])], True, cls=[f"surplus_inner_links:{m['level']}:{m['where']}", f"surplus_inner_links:bad_has_{m['bad_is']}",
                                                               "surplus_inner_links:" + ("accepted" if oks else "rejected")], n=len(o["runs"]))


def main(ctx):
    res = common.Result()
    n = 50 if not ctx.thorough else 2500
    for p in common.pmap(shard, [(ctx.bin, ctx.seed, s, n) for s in range(common.NPROC)]):
        res.merge(p)
    outside_links(ctx.bin, res, ctx.seed, 60 if not ctx.thorough else 600)
    expiry_history(ctx.bin, res, ctx.seed)
    # a layout without steps: the summary is empty but still carries the requested name
    W = scen.World(ctx.bin)
    lw = scen.sign_all(ctx.bin, [(scen.mk_layout(W, [], [], []), ["ed0"], "new")])[0]
    for nm in (None, "final", "é x"):
        c = scen.verify_case(lw, [[W.kid("ed0"), W.pub("ed0")]], {}, step_name=nm,
                             meta={"mode": "empty_layout", "expect": "accept", "depth": 0, "tree_depth": 0,
                                   "summary": pipeline.summary_of({"steps": []}, nm or "")})
        o = common.run_batch(ctx.bin, [c])[0]
        judge(c, o, res)
        res.note(["empty", nm], True, cls="mode:empty_layout")
    pattern_names(ctx.bin, res, ctx.seed)
    inspection_named_like_step(ctx.bin, res, ctx.seed)
    forged_inner_attribution(ctx.bin, res, ctx.seed)
    surplus_inner_links(ctx.bin, res, ctx.seed, 24 if not ctx.thorough else 400)
    return common.finish(
        PROP, ctx.tier, ctx.seed, res, t0=ctx.t0,
        rule="delegation trees of depth 1-3 (inner layouts with 1-3 steps, nested delegation with probability 0.6 per "
             "step); one failure mode injected into one delegated node: wrong signer, unauthorised key, inner expiry, "
             "missing/unauthorised/corrupted inner evidence, inner rule failure, inner links in the parent directory / "
             "another key's / another step's sub-directory, unsigned or edited sub-layout, parent REQUIRE/DISALLOW of "
             "the contributed last product; positive controls compare the returned summary link exactly; every "
             "scenario is non-trivial; distinct by (layout, directory)",
        assumptions=["ground truth by construction; summary computed from the descriptor"],
        required=["forged_inner_attribution:delegated", "forged_inner_attribution:rejected", "forged_inner_attribution:accepted", "inspection_named_like_step:last:top", "inspection_named_like_step:first:delegated", "inspection_named_like_step:ok", "mode:pattern_name:control:accepted", "mode:pattern_name:sibling_dir:rejected", "surplus_inner_links:accepted", "surplus_inner_links:delegated:last_products", "surplus_inner_links:delegated:first_materials", "surplus_inner_links:top:last_products", "positive_control_accepted", "mode:key_of_other_step", "mode:inner_inspection_fails", "mode:inner_inspection_passes", "positive_at_tree_depth:1", "positive_at_tree_depth:2",
                  "positive_at_tree_depth:3", "mode:wrong_signer", "mode:unauth_key", "mode:inner_expired",
                  "mode:inner_link_missing", "mode:links_in_parent_dir", "mode:links_in_other_key_dir",
                  "mode:parent_disallows_summary_product", "mode:parent_requires_summary_product", "mode:inner_rule_fail",
                  "mode:multi_delegation:all_good", "mode:multi_delegation:dir_missing", "mode:multi_delegation:inner_link_unauth",
                  "depth:2", "rejected", "inner_expired:within_a_day", "mode:history:while_valid", "mode:history:after_expiry:failed_before", "mode:outside:control", "mode:outside:parent_dir", "mode:outside:sibling_dir"],
        min_evals=400)
