"""C18 — recorded artifacts are exactly the files present, with their true digests.

Monitor: Python builds directory trees (files around the 1 KiB read buffer, odd names, absolute
and relative symlinks to files and directories, chains, cycles), calls record_artifacts /
in_toto_run through the executor with the tree root as working directory, and compares the
result with an independent walk (os.stat/os.listdir, ancestor (st_dev, st_ino) loop detection)
and hashlib digests.
"""
import hashlib
import os
import shutil
import stat

import common

PROP = "C18"
SIZES = [0, 1, 1023, 1024, 1025, 2048, 4096, 100000]
NAMES = ["a", "b", "file.txt", "with space", "ünï", ".hidden", "x.c", "UPPER", "d1", "d2", "sub", "😀", "a.b.c", "-dash",
         # a backslash, a colon, a quote, a glob character are ordinary characters of a POSIX file name
         "win\\style.txt", "a\\b", "C:", "it's", "st*r", "[x]", "tab\there", "semi;colon", "q\"uote"]


def content(rng, size):
    seed = rng.getrandbits(32)
    return (hashlib.sha256(str(seed).encode()).digest() * (size // 32 + 1))[:size]


def clean(p):
    q = os.path.normpath(p)
    return q[2:] if q.startswith("//") else q


def join(p, name):
    return name if p == "." else p + "/" + name


class Tree:
    def __init__(self, root):
        self.root = root
        self.dirs = ["."]
        self.files = []
        self.links = []
        self.cyclic = False
        self.has_chain = False
        self.has_rel_link = False
        self.has_special = False

    def path(self, rel):
        return os.path.join(self.root, rel)


def build_tree(rng, root, features):
    os.makedirs(root)
    t = Tree(root)
    for d in range(rng.choice([0, 1, 2, 3, 5])):
        parent = rng.choice(t.dirs)
        if parent.count("/") >= 3:
            continue
        name = rng.choice(NAMES)
        rel = join(parent, name)
        if os.path.lexists(t.path(rel)):
            continue
        os.mkdir(t.path(rel))
        t.dirs.append(rel)
    for f in range(rng.choice([1, 2, 4, 8])):
        parent = rng.choice(t.dirs)
        name = rng.choice(NAMES)
        rel = join(parent, name)
        if os.path.lexists(t.path(rel)):
            continue
        with open(t.path(rel), "wb") as fh:
            fh.write(content(rng, rng.choice(SIZES)))
        t.files.append(rel)
    nlinks = rng.choice([0, 0, 1, 2, 3]) if "symlinks" in features else 0
    for l in range(nlinks):
        parent = rng.choice(t.dirs)
        name = "ln" + str(l)
        rel = join(parent, name)
        kinds = ["file_rel", "file_abs", "dir_rel", "dir_abs", "chain", "to_special"]
        if "cycles" in features:
            kinds += ["cycle_parent", "cycle_parent", "cycle_mutual"]
        kind = rng.choice(kinds)
        depth = 0 if parent == "." else parent.count("/") + 1
        up = "../" * depth
        if kind in ("file_rel", "file_abs") and t.files:
            tgt = rng.choice(t.files)
            os.symlink((up + tgt) if kind == "file_rel" else t.path(tgt), t.path(rel))
            t.has_rel_link |= kind == "file_rel" and parent != "."
        elif kind in ("dir_rel", "dir_abs") and len(t.dirs) > 1:
            tgt = rng.choice(t.dirs[1:])
            # a link into one of its own ancestors would be a cycle
            if parent == tgt or parent.startswith(tgt + "/"):
                continue
            os.symlink((up + tgt) if kind == "dir_rel" else t.path(tgt), t.path(rel))
            t.has_rel_link |= kind == "dir_rel" and parent != "."
        elif kind == "chain" and t.files:
            tgt = rng.choice(t.files)
            mid = join(parent, name + "_mid")
            os.symlink((up + tgt), t.path(mid))
            os.symlink(name + "_mid", t.path(rel))
            t.links.append(mid)
            t.has_chain = True
        elif kind == "to_special":
            # a link whose target is neither a regular file nor a directory (a device, a socket): nothing to record
            if rng.random() < 0.5 and stat.S_ISCHR(os.stat("/dev/null").st_mode):
                os.symlink("/dev/null", t.path(rel))
            else:
                import socket
                sp = root.rstrip("/") + ".sock" + str(l)
                if len(sp) < 100 and not os.path.lexists(sp):
                    sk = socket.socket(socket.AF_UNIX)
                    sk.bind(sp)
                    sk.close()
                    os.symlink(sp, t.path(rel))
                else:
                    os.symlink("/dev/null", t.path(rel))
            t.has_special = True
        elif kind == "cycle_parent":
            os.symlink(".." if parent != "." else ".", t.path(rel))
            t.cyclic = True
        elif kind == "cycle_mutual" and len(t.dirs) > 2:
            a, b = rng.sample(t.dirs[1:], 2)
            la, lb = join(a, "to_other"), join(b, "to_other")
            if not os.path.lexists(t.path(la)) and not os.path.lexists(t.path(lb)):
                os.symlink(t.path(b), t.path(la))
                os.symlink(t.path(a), t.path(lb))
                t.cyclic = True
            continue
        else:
            continue
        t.links.append(rel)
    return t


def digest_of(path, algs):
    data = open(path, "rb").read()
    return {a: hashlib.new(a, data).hexdigest() for a in algs}


class TooBig(Exception):
    pass


def ref_walk(root, args, algs, max_repeat=1):
    """independent walk: {normalised path: (digests, (dev, ino))} and whether a cycle was met.
    Explores every path on which no directory occurs more than max_repeat times (1 = the paths
    the property requires; larger values give the tolerated unrollings of a cycle)."""
    out = {}
    cyc = [False]
    budget = [60000]

    def rec(p, ancestors):
        budget[0] -= 1
        if budget[0] < 0:
            raise TooBig()
        full = os.path.join(root, p)
        try:
            st = os.stat(full)
        except OSError:
            return
        if stat.S_ISREG(st.st_mode):
            out[p] = (digest_of(full, algs), (st.st_dev, st.st_ino))
        elif stat.S_ISDIR(st.st_mode):
            key = (st.st_dev, st.st_ino)
            if ancestors.count(key) >= max_repeat:
                cyc[0] = True
                return
            for name in sorted(os.listdir(full)):
                rec(join(p, name), ancestors + (key,))
    for a in args:
        rec(clean(a), ())
    return out, cyc[0]


def lstrip_key(path, lstrip):
    if lstrip is None:
        return path
    best = ""
    for l in lstrip:
        if path.startswith(l) and len(l) > len(best):
            best = l
    return path[len(best):] if best else path


def expected_map(root, args, algs, lstrip):
    """returns (map or None if a genuine collision must be reported, info)"""
    walked, cyclic = ref_walk(root, args, algs)
    keyed = {}
    collision = None      # "distinct" | "same_inode"
    for p, (dg, ino) in walked.items():
        k = lstrip_key(p, lstrip)
        if k in keyed and keyed[k][2] != p:
            kind = "same_inode" if keyed[k][1] == ino else "distinct"
            if collision != "distinct":
                collision = kind
        else:
            keyed[k] = (dg, ino, p)
    return {k: v[0] for k, v in keyed.items()}, cyclic, collision


def judge(case, obs, res):
    m = case["meta"]
    root = case["cwd"]
    algs = case["algs"] or ["sha256"]
    if any(k in obs for k in ("crash", "watchdog", "missing")):
        if "watchdog" in obs:
            res.inconclusive.append("watchdog fired during record (inconclusive, not a violation)")
        else:
            res.violate("record-crash", f"record_artifacts killed the process: {str(obs)[:200]}", case, obs, "map or error")
        return None
    if "panic" in obs:
        res.violate(f"record-panic:{obs['panic']['loc'].rsplit(':', 1)[0]}", f"record_artifacts panicked: {obs['panic']['msg']}", case, obs, "map or error")
        return "panic"
    if m.get("unknown_alg"):
        if "ok" in obs:
            res.violate("unknown-algorithm-accepted", "an unknown hash algorithm was accepted", case, obs, "error")
        return "err"
    want, cyclic, collision = expected_map(root, case["paths"], algs, case["lstrip"])
    feats = "+".join(sorted(m["features"]))
    if cyclic and case["lstrip"] and collision is None:
        # a cycle gives every file many aliased paths; with a strip-prefix two aliases (or, deeper in the unrolling, two
        # different files) may receive one key.  How deep a cycle is unrolled is not fixed by the property, so a collision
        # that exists only among deeper unrollings makes both outcomes acceptable.
        try:
            tw, _ = ref_walk(root, case["paths"], algs, max_repeat=3)
            seen = {}
            for tp in tw:
                k = lstrip_key(tp, case["lstrip"])
                if k in seen and seen[k] != tp:
                    collision = "unrolling"
                    break
                seen[k] = tp
        except TooBig:
            collision = "unrolling"
    if collision == "unrolling":
        return "either"
    if "err" in obs:
        if collision == "distinct":
            return "collision_reported"
        if collision == "same_inode":
            return "either"
        cause = ("overlapping-path-arguments" if m["overlap"] else "relative-symlink" if m["rel_link"] else
                 "symlink-chain" if m["chain"] else "cycle" if cyclic else "plain")
        res.violate(f"record-fails:{cause}", f"recording {case['paths']} (strip {case['lstrip']}) fails with '{obs['err']}' on a tree with "
                    f"{feats}; every reachable file has a unique key", case, obs, want)
        return "err"
    got = {p: d for p, d in obs["ok"]}
    if len(got) != len(obs["ok"]):
        res.violate("duplicate-key-in-result", "result lists a key twice", case, obs, None)
    if collision == "distinct":
        res.violate("colliding-keys-not-reported", "two distinct files receive the same key and no error is returned (one silently replaced the other)",
                    case, obs, "error")
        return "ok"
    if collision == "same_inode":
        return "either"
    # every recorded entry must be true
    tolerated = None
    for p, d in got.items():
        if p not in want:
            # in a cyclic tree deeper unrollings are tolerated if they are true files (the property does
            # not fix how deep a cycle is unrolled)
            if cyclic:
                if tolerated is None:
                    try:
                        tw, _ = ref_walk(root, case["paths"], algs, max_repeat=3)
                        tolerated = {}
                        for tp, (tdg, _) in tw.items():
                            tolerated.setdefault(lstrip_key(tp, case["lstrip"]), []).append(tdg)
                    except TooBig:
                        return "either"
                if d in tolerated.get(p, []):
                    continue
            res.violate("records-something-not-present", f"recorded key {p!r} is not a reachable regular file under {case['paths']}", case, obs, sorted(want))
            return "ok"
        if d != want[p]:
            res.violate("wrong-digest", f"digest of {p!r} is {d}, true digest {want[p]}", case, obs, want[p])
            return "ok"
    missing = sorted(set(want) - set(got))
    if missing:
        cause = "symlink-chain" if m["chain"] else "relative-symlink" if m["rel_link"] else "cycle" if cyclic else "plain"
        res.violate(f"misses-reachable-file:{cause}", f"reachable regular files {missing[:5]} are not recorded (tree features {feats})", case, obs, sorted(want))
    return "ok"


def parent_of(rel):
    return rel.rsplit("/", 1)[0] if "/" in rel else "."


def path_args(rng, t):
    k = rng.randrange(11)
    subs = t.dirs[1:]
    overlap = False
    singles = t.files + t.links     # explicit file / symlink arguments
    if k == 0 or not subs:
        args = ["."]
    elif k == 1:
        args = [rng.choice(subs)]
    elif k == 2:
        args = rng.sample(subs, min(2, len(subs)))
        overlap = len(args) == 2 and (args[0].startswith(args[1] + "/") or args[1].startswith(args[0] + "/"))
    elif k == 3:
        d = rng.choice(subs)
        args = [".", d]
        overlap = True
    elif k == 4:
        d = rng.choice(subs)
        args = [d, d]
        overlap = True
    elif k == 5:
        d = rng.choice(subs)
        args = ["./" + d + "/../" + d.rsplit("/", 1)[-1]]
    elif k == 6:
        args = [rng.choice(t.files)] if t.files else ["."]
    elif k in (7, 8) and singles:
        # explicitly named files / links together with the directory that contains them, in either order
        picks = rng.sample(singles, min(len(singles), rng.choice([1, 2, 3])))
        par = parent_of(picks[0])
        args = picks + [par] if k == 7 else [par] + picks
        overlap = True
    elif k == 9 and singles:
        picks = rng.sample(singles, min(len(singles), rng.choice([2, 3])))
        args = picks + [rng.choice(t.dirs)] + picks[:1]
        overlap = True
    else:
        args = [rng.choice(t.dirs), "."]
        overlap = True
    return args, overlap


def gen_case(rng, base, i, features):
    root = os.path.join(base, f"t{i}")
    t = build_tree(rng, root, features)
    args, overlap = path_args(rng, t)
    algs = rng.choice([None, None, ["sha256"], ["sha512"], ["sha256", "sha512"], ["sha512", "sha256"],
                       # a selection may name an algorithm more than once (defaults concatenated with a user's list)
                       ["sha256", "sha256", "sha512"], ["sha512", "sha256", "sha512"], ["sha256", "sha256"], ["sha512", "sha512", "sha256", "sha256"]])
    unknown = rng.random() < 0.03
    if unknown:
        algs = ["md5"]
    ls = rng.choice([None, None, "one", "nested", "nomatch", "collide"])
    lstrip = None
    if ls == "one" and t.dirs[1:]:
        lstrip = [rng.choice(t.dirs[1:]) + "/"]
    elif ls == "nested" and t.dirs[1:]:
        d = rng.choice(t.dirs[1:])
        lstrip = [d.split("/")[0] + "/", d + "/"]
        rng.shuffle(lstrip)
    elif ls == "nomatch":
        lstrip = ["nope/", "zzz"]
    elif ls == "collide" and len(t.dirs) > 2:
        lstrip = [d + "/" for d in rng.sample(t.dirs[1:], 2)]
    return {"op": "record", "cwd": root, "paths": args, "algs": algs, "lstrip": lstrip,
            "meta": {"features": sorted(features | ({"cyclic"} if t.cyclic else set())), "overlap": overlap, "rel_link": t.has_rel_link,
                     "chain": t.has_chain, "special": t.has_special, "unknown_alg": unknown, "nlinks": len(t.links), "nfiles": len(t.files)}}


def fixed_prefix_cases(base):
    """directories named like the strip prefix inside the strip prefix (d/d/f, out/out/out/g), several nested prefixes that all
    match (the longest goes), a prefix that is also the beginning of a file name: a prefix is removed once, from the start"""
    out = []
    layouts = [
        ({"d/d/f": b"1", "d/d/d/g": b"2", "d/x": b"3", "dd/y": b"4", "d": None}, ["d/"], ["."]),
        ({"out/out/out/g": b"5", "out/outfile": b"6", "out/out.txt": b"7"}, ["out/"], ["out"]),
        ({"root/pkg/src/main.rs": b"8", "root/pkg/a": b"9", "root/zzz": b"10"}, ["root/", "root/pkg/"], ["root"]),
        ({"root/pkg/src/main.rs": b"8", "root/pkg/a": b"9", "root/zzz": b"10"}, ["root/pkg/", "root/"], ["."]),
        ({"a/a/a/a": b"11", "a/b": b"12"}, ["a/", "a/a/"], ["a"]),
        ({"ab/ab/c": b"13", "ab/abc": b"14"}, ["ab"], ["ab"]),
    ]
    for j, (files, lstrip, args) in enumerate(layouts):
        root = os.path.join(base, f"fixed{j}")
        os.makedirs(root)
        nfiles = 0
        for rel, data in files.items():
            if data is None:
                continue
            os.makedirs(os.path.dirname(os.path.join(root, rel)), exist_ok=True)
            with open(os.path.join(root, rel), "wb") as fh:
                fh.write(data * 100)
            nfiles += 1
        out.append({"op": "record", "cwd": root, "paths": args, "algs": None, "lstrip": lstrip,
                    "meta": {"features": ["fixed_prefix"], "overlap": False, "rel_link": False, "chain": False, "special": False,
                             "unknown_alg": False, "nlinks": 0, "nfiles": nfiles}})
    return out


def shard(binpath, seed, sh, n):
    rng = common.rng_for(seed, PROP, sh)
    res = common.Result()
    base = str(common.scratch_dir() / f"c18_{sh}")
    shutil.rmtree(base, ignore_errors=True)
    cases = []
    for i in range(n):
        features = rng.choice([set(), {"symlinks"}, {"symlinks"}, {"symlinks", "cycles"}])
        cases.append(gen_case(rng, base, i, features))
    if sh == 0:
        cases += fixed_prefix_cases(base)
    obs = common.run_batch(binpath, cases, keys=False, cpu_s=120, wall_s=600)
    for c, o in zip(cases, obs):
        r = judge(c, o, res)
        if r is None:
            continue
        m = c["meta"]
        cls = ["outcome:" + r, "args:" + ("overlap" if m["overlap"] else "disjoint"), "lstrip:" + ("yes" if c["lstrip"] else "no"),
               "algs:" + ("default" if c["algs"] is None else "+".join(c["algs"]))]
        cls += ["tree:" + f for f in m["features"]] or ["tree:plain"]
        if m.get("special"):
            cls.append("tree:link_to_special_file")
        if m["chain"]:
            cls.append("tree:symlink_chain")
        if m["rel_link"]:
            cls.append("tree:relative_symlink_in_subdir")
        if not m["features"]:
            cls.append("tree:plain")
        res.note([c["cwd"], c["paths"], c["lstrip"], c["algs"], sorted(os.listdir(c["cwd"]))], m["nfiles"] > 0, cls=cls)
    if sh == 0:
        for c, o in list(zip(cases, obs))[:3]:
            res.sample({"paths": c["paths"], "lstrip": c["lstrip"], "algs": c["algs"], "tree_features": c["meta"]["features"],
                        "recorded": (o.get("ok") or o.get("err") or str(o))[:6] if isinstance(o.get("ok"), list) else str(o)[:300]})
    res.merge(run_cases(binpath, rng, base, max(4, n // 4)))
    shutil.rmtree(base, ignore_errors=True)
    return res


COMMANDS = [
    ("create", "echo new > created.txt", "", ""),
    ("overwrite", "for f in ./*; do if [ -f \"$f\" ]; then echo over > \"$f\"; break; fi; done", "", ""),
    ("append", "for f in ./*; do if [ -f \"$f\" ]; then echo more >> \"$f\"; break; fi; done", "", ""),
    ("delete", "for f in ./*; do if [ -f \"$f\" ]; then rm -- \"$f\"; break; fi; done", "", ""),
    ("mkdir_create", "mkdir -p nd/deep && echo x > nd/deep/f", "", ""),
    ("stdout", "printf 'hello\\nworld\\n'", "hello\nworld\n", ""),
    ("stderr", "printf 'oops\\ttab\\r\\n' >&2", "", "oops\ttab\r\n"),
    ("both", "printf out; printf err >&2", "out", "err"),
    ("noop", ":", "", ""),
    # long output with multi-byte characters on both streams (however the output is read, it is decoded as a whole)
    ("long_unicode_output", "i=0; while [ $i -lt 900 ]; do printf 'Zeile %s: äöü€😀\\n' $i; printf 'Fehler %s: ßé\\n' $i >&2; i=$((i+1)); done",
     "".join(f"Zeile {i}: äöü€😀\n" for i in range(900)), "".join(f"Fehler {i}: ßé\n" for i in range(900))),
    # content changes, size and modification time do not (cp -p / rsync -t / reproducible-build style)
    ("same_size_same_mtime", "for f in ./*; do if [ -f \"$f\" ] && [ -s \"$f\" ]; then cp -p \"$f\" ./.keep_mtime; "
                             "printf 'Z' | dd of=\"$f\" bs=1 count=1 conv=notrunc 2>/dev/null; touch -r ./.keep_mtime \"$f\"; "
                             "rm -f ./.keep_mtime; break; fi; done", "", ""),
    ("same_size_same_mtime_deep", "f=$(find . -type f -size +0 | sort | tail -1); if [ -n \"$f\" ]; then cp -p \"$f\" ./.keep_mtime; "
                                  "printf 'Q' | dd of=\"$f\" bs=1 count=1 conv=notrunc 2>/dev/null; touch -r ./.keep_mtime \"$f\"; "
                                  "rm -f ./.keep_mtime; fi", "", ""),
]


def run_cases(binpath, rng, base, n):
    res = common.Result()
    cases, pre = [], []
    for i in range(n):
        root = os.path.join(base, f"r{i}")
        t = build_tree(rng, root, set())
        name, script, so, se = rng.choice(COMMANDS)
        code = rng.choice([0, 0, 1, 2, 3, 127, 255])
        algs = rng.choice([None, ["sha256", "sha512"]])
        cmd = ["sh", "-c", f"{script}; exit {code}"]
        if i % 4 == 3:
            # a command given as a plain argument vector whose arguments happen to name things that exist (relative to the
            # working directory): it is run with exactly these arguments
            here = sorted(os.listdir(root))
            args = rng.sample(here, min(len(here), 2)) + rng.sample([".", "./", "..", "./" + (here[0] if here else "x"), "no-such-file", "-n", ""], 3)
            rng.shuffle(args)
            cmd = ["printf", "%s|"] + args
            name, so, se, code = "argv_naming_existing_paths", "".join(a + "|" for a in args), "", 0
        c = {"op": "run", "cwd": root, "name": f"step{i}", "run_dir": rng.choice([None, "."]), "materials": ["."], "products": ["."],
             "cmd": cmd, "algs": algs, "lstrip": None, "key": rng.choice([None, "ed0"]),
             "meta": {"command": name, "code": code, "stdout": so, "stderr": se}}
        pre.append(ref_walk(root, ["."], algs or ["sha256"])[0])
        cases.append(c)
    obs = common.run_batch(binpath, cases, cpu_s=120, wall_s=600)
    for c, o, before in zip(cases, obs, pre):
        m = c["meta"]
        if "ok" not in o:
            if "panic" in o:
                res.violate("run-panic", f"in_toto_run panicked: {o['panic']}", c, o, None)
            else:
                res.violate("run-fails", f"in_toto_run failed on a plain tree: {str(o)[:200]}", c, o, "link")
            continue
        link = o["ok"]["signed"]
        after = ref_walk(c["cwd"], ["."], c["algs"] or ["sha256"])[0]
        wm = {p: d for p, (d, _) in before.items()}
        wp = {p: d for p, (d, _) in after.items()}
        res.note([c["cwd"], c["cmd"]], True, cls=["run:" + m["command"], "run_exit:%d" % m["code"], "run_signed" if c["key"] else "run_unsigned"])
        if link["materials"] != wm:
            res.violate("materials-not-the-pre-command-state", f"materials differ from the tree before the command ({m['command']})", c, o, wm)
        if link["products"] != wp:
            res.violate("products-not-the-post-command-state", f"products differ from the tree after the command ({m['command']})", c, o, wp)
        bp = link["byproducts"]
        if bp.get("stdout") != m["stdout"] or bp.get("stderr") != m["stderr"] or bp.get("return-value") != m["code"]:
            res.violate("byproducts-differ", f"byproducts {bp} != (stdout {m['stdout']!r}, stderr {m['stderr']!r}, status {m['code']})", c, o, None)
        if link["name"] != c["name"]:
            res.violate("run-name-differs", f"link name {link['name']}", c, o, c["name"])
    return res


def replay(ctx, case, res):
    if not os.path.isdir(case["cwd"]):
        print(f"[C18] the tree of this replay ({case['cwd']}) no longer exists; re-run the check with the same VERIF_SEED")
        return
    o = common.run_batch(ctx.bin, [case])[0]
    if case["op"] == "record":
        judge(case, o, res)


def main(ctx):
    res = common.Result()
    n = 40 if not ctx.thorough else 8000
    for p in common.pmap(shard, [(ctx.bin, ctx.seed, s, n) for s in range(common.NPROC)]):
        res.merge(p)
    res.extras["out_of_domain"] = ["dangling links", "non-UTF-8 names", "special files", "the same file reached by two aliased paths "
                                   "that a strip-prefix maps to one key (either outcome accepted)"]
    return common.finish(
        PROP, ctx.tier, ctx.seed, res, t0=ctx.t0,
        rule="random trees (depth<=4, empty dirs, files of 0/1/1023/1024/1025/2048/4096/100000 bytes, names with spaces/Unicode/"
             "leading dots, relative and absolute symlinks to files and directories, chains, parent and mutual cycles) x path "
             "argument lists (root, sub-dirs, overlapping, duplicated, non-normalised, single file) x strip-prefix lists (none, one, "
             "nested, non-matching, colliding) x algorithm selections; plus in_toto_run with commands of known effect; "
             "non-trivial = tree has files; distinct by (tree listing, arguments)",
        assumptions=["the independent walk (os.stat / os.listdir / hashlib) is the reference", "os.path.normpath == path normalisation on the generated arguments"],
        required=["tree:fixed_prefix", "outcome:ok", "tree:plain", "tree:symlinks", "tree:cyclic", "args:overlap", "lstrip:yes", "algs:sha256+sha512",
                  "run:create", "run:delete", "run:stdout", "run:same_size_same_mtime", "tree:symlink_chain", "tree:relative_symlink_in_subdir"],
        min_evals=300)
