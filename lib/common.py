"""Supervisor, executor driver, evidence / verdict plumbing shared by all checks.

Verdicts are three-valued (DESIGN.md §1):
  held          exit 0
  known finding exit 0 + "KNOWN-FINDING: property=<id> <what>" per listed entry
  violated      exit 1 + "VIOLATION property=<id> replay=<path>"
  inconclusive  exit 2 + "INCONCLUSIVE property=<id> <why>"  (never a VIOLATION line)
"""
import collections
import hashlib
import json
import multiprocessing
import os
import pathlib
import random
import resource
import shutil
import signal
import subprocess
import sys
import time
from pathlib import Path

VERIF = Path(__file__).resolve().parent.parent
HARNESS = VERIF / "harness"
KEYS = VERIF / "keys"
REPO = Path("/repo")
NPROC = min(16, os.cpu_count() or 4)


class Inconclusive(Exception):
    pass


# ----------------------------------------------------------------------------
# build


def build(profile="release", quiet=True):
    """(Re)build the executor against /repo's current working tree."""
    lock = HARNESS / "Cargo.lock"
    if not lock.exists():
        shutil.copy(REPO / "Cargo.lock", lock)
    env = dict(os.environ, CARGO_NET_OFFLINE="true")
    cmd = ["cargo", "build", "--offline", "--profile", profile]
    t = time.time()
    p = subprocess.run(cmd, cwd=HARNESS, env=env, stdout=subprocess.PIPE,
                       stderr=subprocess.STDOUT, text=True)
    if p.returncode != 0:
        sys.stderr.write(p.stdout[-4000:])
        raise Inconclusive("executor does not build against the current /repo tree")
    if not quiet:
        print(f"[build] {profile} {time.time() - t:.1f}s")
    sub = "release" if profile == "release" else profile
    return HARNESS / "target" / sub / "itv"


# ----------------------------------------------------------------------------
# key pool


def _ed_seed(i, tag="ed"):
    return hashlib.sha256(f"itv-{tag}-{i}".encode()).hexdigest()


def key_header():
    ks = {}
    for i in range(8):
        ks[f"ed{i}"] = {"kind": "ed25519", "seed": _ed_seed(i), "via": "raw"}
    for i in range(4):
        ks[f"edp{i}"] = {"kind": "ed25519", "seed": _ed_seed(i, "edp"), "via": "pkcs8"}
    for i in range(56):
        ks[f"edx{i}"] = {"kind": "ed25519", "seed": _ed_seed(i, "edx"), "via": "raw"}
    for n in "abc":
        ks[f"ec-{n}"] = {"kind": "pk8", "path": str(KEYS / f"ec-{n}.pk8.der"),
                         "scheme": "ecdsa-sha2-nistp256"}
    for n in ("2048-a", "2048-b", "3072-a", "4096-a"):
        ks[f"rsa-{n}"] = {"kind": "pk8", "path": str(KEYS / f"rsa-{n}.pk8.der"),
                          "scheme": "rsassa-pss-sha256"}
    ks["rsa-2048-a512"] = {"kind": "pk8", "path": str(KEYS / "rsa-2048-a.pk8.der"),
                           "scheme": "rsassa-pss-sha512"}
    ks["rsa-2048-b512"] = {"kind": "pk8", "path": str(KEYS / "rsa-2048-b.pk8.der"),
                           "scheme": "rsassa-pss-sha512"}
    return ks


FAST_KEYS = [f"ed{i}" for i in range(8)] + [f"edp{i}" for i in range(4)] + ["ec-a", "ec-b", "ec-c"]
RSA_KEYS = ["rsa-2048-a", "rsa-2048-b", "rsa-2048-a512", "rsa-2048-b512", "rsa-3072-a", "rsa-4096-a"]
ALL_KEYS = FAST_KEYS + RSA_KEYS
CROWD_KEYS = [f"edx{i}" for i in range(56)]      # populations far beyond the ordinary pools (lib/crowd.py)


# ----------------------------------------------------------------------------
# executor driver


def _limits(cpu_s, as_bytes):
    def f():
        os.setsid()
        if cpu_s:
            resource.setrlimit(resource.RLIMIT_CPU, (cpu_s, cpu_s + 5))
        if as_bytes:
            resource.setrlimit(resource.RLIMIT_AS, (as_bytes, as_bytes))
        resource.setrlimit(resource.RLIMIT_CORE, (0, 0))
    return f


# one scratch root per check run (the process that first imports this module); forked workers and their
# sub-processes put their own directories below it, and the run removes the whole root at its end
os.environ.setdefault("VERIF_SCRATCH_ROOT", str(VERIF / ".scratch" / f"{os.getpid()}"))


def scratch_dir():
    d = pathlib.Path(os.environ["VERIF_SCRATCH_ROOT"]) / f"p{os.getpid()}"
    d.mkdir(parents=True, exist_ok=True)
    return d


def cleanup_scratch():
    shutil.rmtree(os.environ["VERIF_SCRATCH_ROOT"], ignore_errors=True)
    try:
        (VERIF / ".scratch").rmdir()
    except OSError:
        pass


_batch_counter = [0]


def run_batch(binpath, cases, keys=True, cpu_s=600, wall_s=1800, as_bytes=8 << 30,
              runner=None, env=None, tag="b"):
    """Run `cases` (list of dicts) through one executor process (restarted after a
    crash).  Returns a list of observations aligned with `cases`.  A case during
    which the process died gets {"crash": {...}}; if the wall-clock watchdog fired
    the remaining cases get {"watchdog": true} (inconclusive, never a violation)."""
    sd = scratch_dir()
    _batch_counter[0] += 1
    base = sd / f"{tag}{_batch_counter[0]}"
    cin, cout, clog = f"{base}.in", f"{base}.out", f"{base}.log"
    with open(cin, "w") as f:
        if keys:
            f.write(json.dumps({"op": "keys", "keys": key_header() if keys is True else keys}) + "\n")
        for c in cases:
            f.write(json.dumps(c, ensure_ascii=False) + "\n")
    obs = [None] * len(cases)
    start = 0
    open(cout, "w").close()
    deadline = time.time() + wall_s
    while start < len(cases):
        cmd = [str(binpath), cin, cout, str(base) + ".d", str(start)]
        if runner:
            cmd = runner + cmd
        with open(clog, "ab") as lg:
            p = subprocess.Popen(cmd, stdout=lg, stderr=lg, stdin=subprocess.DEVNULL,
                                 preexec_fn=_limits(cpu_s, as_bytes), env=env)
            try:
                rc = p.wait(timeout=max(1, deadline - time.time()))
                watchdog = False
            except subprocess.TimeoutExpired:
                try:
                    os.killpg(p.pid, signal.SIGKILL)
                except ProcessLookupError:
                    pass
                p.wait()
                rc, watchdog = None, True
        begun, ended = None, False
        with open(cout, errors="replace") as f:
            for line in f:
                try:
                    o = json.loads(line)
                except ValueError:
                    continue
                if "begin" in o and len(o) == 1:
                    begun = o["begin"]
                elif "end" in o and len(o) == 1:
                    ended = True
                elif "idx" in o:
                    obs[o["idx"]] = o
        if ended and rc == 0:
            break
        if watchdog:
            for i in range(len(cases)):
                if obs[i] is None:
                    obs[i] = {"watchdog": True}
            break
        if begun is None or obs[begun] is not None:
            # died outside of any case: harness problem
            tail = open(clog, errors="replace").read()[-2000:]
            raise Inconclusive(f"executor died outside a case (rc={rc}): {tail}")
        obs[begun] = {"crash": {"rc": rc, "signal": -rc if rc is not None and rc < 0 else None,
                                "log_tail": open(clog, errors="replace").read()[-1500:]}}
        start = begun + 1
        open(cout, "w").close()
        # keep observations gathered so far; restart after the fatal case
    for i in range(len(cases)):
        if obs[i] is None:
            obs[i] = {"missing": True}
    for pth in (cin, cout, clog):
        try:
            os.unlink(pth)
        except OSError:
            pass
    shutil.rmtree(str(base) + ".d", ignore_errors=True)
    return obs


_keyinfo_cache = {}


def keyinfo(binpath):
    k = str(binpath)
    if k not in _keyinfo_cache:
        o = run_batch(binpath, [{"op": "keyinfo"}])[0]
        if o.get("errors"):
            raise Inconclusive(f"key pool did not load: {o['errors']}")
        _keyinfo_cache[k] = o["keys"]
    return _keyinfo_cache[k]


def run_sharded(binpath, cases, nproc=NPROC, **kw):
    """Split `cases` over nproc executor processes (strided), preserving order."""
    if len(cases) <= 8 or nproc <= 1:
        return run_batch(binpath, cases, **kw)
    n = min(nproc, len(cases))
    shards = [cases[i::n] for i in range(n)]
    with multiprocessing.get_context("fork").Pool(n) as pool:
        res = pool.starmap(_run_batch_kw, [(binpath, s, kw, f"s{i}_") for i, s in enumerate(shards)])
    obs = [None] * len(cases)
    for i, r in enumerate(res):
        if isinstance(r, Exception):
            raise r
        obs[i::n] = r
    return obs


def _run_batch_kw(binpath, shard, kw, tag):
    try:
        return run_batch(binpath, shard, tag=tag, **kw)
    except Inconclusive as e:
        return e


def pmap(fn, args, nproc=NPROC):
    """Run fn(*a) for a in args in forked worker processes."""
    if nproc <= 1 or len(args) <= 1:
        return [fn(*a) for a in args]
    with multiprocessing.get_context("fork").Pool(min(nproc, len(args))) as pool:
        return pool.starmap(fn, args)


# ----------------------------------------------------------------------------
# results / evidence


def h8(obj):
    return hashlib.sha256(json.dumps(obj, sort_keys=True, ensure_ascii=False).encode()).digest()[:8]


class Result:
    """Accumulates what a run observed."""

    def __init__(self):
        self.evaluations = 0
        self.distinct = set()
        self.classes = collections.Counter()
        self.violations = []      # dicts: sig, what, case, obs, expected
        self.samples = []
        self.extras = {}
        self.inconclusive = []
        self.overstrict = 0

    def note(self, case_key, nontrivial=True, cls=None, n=1):
        self.evaluations += n
        if nontrivial:
            self.distinct.add(h8(case_key))
        if cls:
            if isinstance(cls, str):
                self.classes[cls] += 1
            else:
                for c in cls:
                    self.classes[c] += 1

    def violate(self, sig, what, case=None, obs=None, expected=None):
        if len(self.violations) < 400:
            self.violations.append({"sig": sig, "what": what, "case": case, "obs": obs,
                                    "expected": expected})
        else:
            self.classes["violations_dropped_after_400"] += 1

    def sample(self, s, cap=5):
        if len(self.samples) < cap:
            self.samples.append(s)

    def merge(self, other):
        self.evaluations += other.evaluations
        self.distinct |= other.distinct
        self.classes.update(other.classes)
        self.violations.extend(other.violations)
        for s in other.samples:
            self.sample(s)
        for k, v in other.extras.items():
            if isinstance(v, (int, float)) and isinstance(self.extras.get(k, 0), (int, float)):
                self.extras[k] = self.extras.get(k, 0) + v
            elif isinstance(v, list):
                self.extras.setdefault(k, [])
                self.extras[k] = (self.extras[k] + v)[:50]
            elif isinstance(v, dict):
                d = self.extras.setdefault(k, {})
                for kk, vv in v.items():
                    if isinstance(vv, (int, float)):
                        d[kk] = d.get(kk, 0) + vv
                    else:
                        d[kk] = vv
            else:
                self.extras[k] = v
        self.inconclusive.extend(other.inconclusive)
        self.overstrict += other.overstrict
        return self


def load_known():
    p = VERIF / "known_findings.json"
    if not p.exists():
        return []
    return json.load(open(p))


def clip_json(o, limit=6000):
    s = json.dumps(o, ensure_ascii=False)
    if len(s) <= limit:
        return o
    return {"clipped": s[:limit] + "…"}


def finish(prop, tier, seed, res, *, rule, level="exploration", assumptions=(),
           required=(), min_evals=1, t0=None, design_ref=None):
    """Turn a Result into evidence file + stdout lines + exit code."""
    known = [k for k in load_known() if k.get("property") == prop and k.get("status") == "known"]
    known_sigs = {k["signature"]: k for k in known}
    new, hit = [], collections.OrderedDict()
    for v in res.violations:
        if v["sig"] in known_sigs:
            hit.setdefault(v["sig"], v)
        else:
            new.append(v)
    for c in required:
        if res.classes.get(c, 0) == 0:
            res.inconclusive.append(f"required class never observed: {c}")
    if res.evaluations < min_evals:
        res.inconclusive.append(f"only {res.evaluations} evaluations (< {min_evals})")
    if len(res.distinct) < 2:
        res.inconclusive.append("fewer than 2 distinct non-trivial cases")
    wall = time.time() - (t0 or time.time())
    cov = {
        "evaluations": res.evaluations,
        "distinct_nontrivial": len(res.distinct),
        "rule": rule,
        "samples": [clip_json(s, 3000) for s in res.samples] or ["<none>"],
        "classes_observed": dict(sorted(res.classes.items())),
        "overstrict_rejections": res.overstrict,
        "known_findings_reproduced": sorted(hit.keys()),
        "verdict": "violated" if new else ("inconclusive" if res.inconclusive else "held"),
        "inconclusive_reasons": res.inconclusive[:20],
    }
    cov.update(res.extras)
    ev = {
        "property_id": prop, "tier": tier, "seed": seed, "level": level,
        "coverage": cov, "assumptions": list(assumptions), "wall_s": round(wall, 2),
        "violations": len(new),
    }
    (VERIF / "evidence").mkdir(exist_ok=True)
    with open(VERIF / "evidence" / f"{prop}.json", "w") as f:
        json.dump(ev, f, indent=1, ensure_ascii=False)
        f.write("\n")
    print(f"[{prop}] tier={tier} seed={seed} evaluations={res.evaluations} "
          f"distinct_nontrivial={len(res.distinct)} wall={wall:.1f}s")
    top = ", ".join(f"{k}={v}" for k, v in sorted(res.classes.items())[:40])
    print(f"[{prop}] observed: {top}")
    for sig, v in hit.items():
        print(f"KNOWN-FINDING: property={prop} {known_sigs[sig].get('what', sig)} [{sig}]")
    if new:
        rd = VERIF / "replays" / prop
        rd.mkdir(parents=True, exist_ok=True)
        seen = set()
        for v in new:
            if v["sig"] in seen:
                continue
            seen.add(v["sig"])
            name = hashlib.sha256(v["sig"].encode()).hexdigest()[:12] + ".json"
            with open(rd / name, "w") as f:
                json.dump({"property": prop, "sig": v["sig"], "what": v["what"],
                           "case": v["case"], "observed": v["obs"], "expected": v["expected"],
                           "seed": seed, "tier": tier}, f, indent=1, ensure_ascii=False)
            print(f"VIOLATION property={prop} replay={rd / name}")
            print(f"  {v['sig']}: {v['what']}")
            if len(seen) >= 25:
                break
        return 1
    if res.inconclusive:
        for r in res.inconclusive[:10]:
            print(f"INCONCLUSIVE property={prop} {r}")
        return 2
    print(f"[{prop}] held on everything observed")
    return 0


def rng_for(seed, prop, shard=0):
    return random.Random(f"{seed}/{prop}/{shard}")
