//! `itv` — the executor of the in-toto-rs runtime-monitoring harness.
//!
//! It is deliberately dumb: it reads one JSON case per line, performs the
//! requested operation against the real library (every call wrapped in
//! `catch_unwind`), and appends one JSON observation per line to the output
//! log.  Workload generation and every oracle live in Python (`/verif/lib`).
//!
//! usage: itv <cases.jsonl> <out.jsonl> <scratch-dir> [start-index]

mod api_build;
mod keys;
mod ops_block;
mod ops_entry;
mod ops_misc;
mod ops_serde;
mod ops_verify;
mod util;

use std::fs::{File, OpenOptions};
use std::io::{BufRead, BufReader, Write};

use serde_json::{json, Value};

fn main() {
    let args: Vec<String> = std::env::args().collect();
    if args.len() < 4 {
        eprintln!("usage: itv <cases.jsonl> <out.jsonl> <scratch-dir> [start]");
        std::process::exit(64);
    }
    let start: usize = args.get(4).map(|s| s.parse().unwrap()).unwrap_or(0);
    util::install_panic_hook();
    util::install_logger();
    let input = BufReader::new(File::open(&args[1]).expect("open cases"));
    let mut out = OpenOptions::new()
        .create(true)
        .append(true)
        .open(&args[2])
        .expect("open out");
    let scratch = std::path::PathBuf::from(&args[3]);
    std::fs::create_dir_all(&scratch).expect("scratch");
    let mut reg = keys::Registry::default();
    let mut idx = 0usize;
    for line in input.lines() {
        let line = line.expect("read line");
        if line.is_empty() {
            continue;
        }
        let case: Value = serde_json::from_str(&line).expect("case json");
        let op = case["op"].as_str().unwrap_or("").to_string();
        if op == "keys" {
            // header: always processed, not counted
            reg.load(&case["keys"]);
            continue;
        }
        let my = idx;
        idx += 1;
        if my < start {
            continue;
        }
        // announce the case before running it, so a dying process leaves a trace
        writeln!(out, "{}", json!({"begin": my})).unwrap();
        out.flush().unwrap();
        let logged0 =
            util::LOG_RECORDS.load(std::sync::atomic::Ordering::Relaxed);
        let obs = dispatch(&op, &case, &reg, &scratch, my);
        let logged = util::LOG_RECORDS
            .load(std::sync::atomic::Ordering::Relaxed)
            - logged0;
        let mut obs = match obs {
            Value::Object(m) => m,
            other => {
                let mut m = serde_json::Map::new();
                m.insert("value".into(), other);
                m
            }
        };
        obs.insert("idx".into(), json!(my));
        if logged > 0 {
            obs.insert("log_records".into(), json!(logged));
        }
        if let Some(id) = case.get("id") {
            obs.insert("id".into(), id.clone());
        }
        writeln!(out, "{}", Value::Object(obs)).unwrap();
        out.flush().unwrap();
    }
    writeln!(out, "{}", json!({"end": idx})).unwrap();
}

fn dispatch(
    op: &str,
    case: &Value,
    reg: &keys::Registry,
    scratch: &std::path::Path,
    idx: usize,
) -> Value {
    match op {
        "keyinfo" => reg.info(),
        "sign" => ops_block::sign(case, reg),
        "block" => ops_block::block(case),
        "rawsig" => ops_block::rawsig(case, reg),
        "rawverify" => ops_block::rawverify(case),
        "keys12" => ops_block::keys12(case),
        "verify" => ops_verify::verify(case, reg, scratch, idx),
        "record" => ops_verify::record(case),
        "run" => ops_verify::run(case, reg),
        "canon" => ops_misc::canon(case),
        "rules" => ops_misc::rules(case),
        "pae" => ops_misc::pae(case),
        "pae_enum" => ops_misc::pae_enum(case),
        "serde" => ops_serde::serde_op(case),
        "api_rt" => ops_serde::api_rt(case),
        "stmt" => ops_serde::stmt(case),
        "from_meta" => ops_serde::from_meta(case),
        "entry" => ops_entry::entry(case),
        _ => json!({"harness_error": format!("unknown op {}", op)}),
    }
}
