"""C17 — decoding does not depend on how the JSON reaches the parser.

Monitor: every document (valid and invalid, of every public type) is decoded through
from_str, from_slice, a 1-7-bytes-per-read streaming reader, from_value of the parsed tree and the
Json/JsonPretty helpers, in three spellings (as generated, whitespace-reformatted,
escape-respelled).  One outcome class and one value are allowed per document.
"""
import json

import common
import corpus
import jsongen as jg
import scen

PROP = "C17"
TYPES = ["metablock", "wrapper", "layout", "link", "pubkey", "signature", "keyid", "rule", "step", "inspection",
         "byproducts", "command", "statement", "predicate"]


def outcome(o):
    if o == "ok":
        return "ok"
    if isinstance(o, dict) and "panic" in o:
        return "panic"
    return "err"


def judge_one(case, obs, res):
    """channel agreement within one spelling; returns (class, value) or None"""
    if "ch" not in obs:
        res.inconclusive.append(f"executor failure: {str(obs)[:200]}")
        return None
    outs = {ch: outcome(o) for ch, o in obs["ch"].items()}
    if str(case["meta"].get("textmut", "")).startswith("ill_formed_utf8"):
        # bytes that are no text and cannot be held by a JSON tree: only the byte routes are comparable - and only those
        # with the same decode target: serde's untagged "layout or link" buffers (and decodes) every member, the typed
        # targets skip members they do not know.  The crate's own entry points belong to the typed group.
        typed = {ch: k for ch, k in outs.items() if ch in ("typed_slice", "try_from_bytes", "raw_builder")}
        if len(set(typed.values())) > 1 or obs.get("typed_eq") is False:
            res.violate(f"channel-dependent-acceptance:{case['type']}:typed-byte-routes",
                        f"the byte routes to the same decode target disagree on a document with an ill-formed byte sequence in a member "
                        f"nobody reads: {typed}", case, obs, "one outcome")
        outs = {ch: k for ch, k in outs.items() if ch not in ("str", "value", "jdeser", "typed_slice", "try_from_bytes", "raw_builder")}
    if str(case["meta"].get("textmut", "")).startswith("duplicate_member"):
        # a JSON tree cannot represent a repeated member (building it keeps the last occurrence), so the tree
        # channels see a different document: only the text channels are comparable here
        outs = {ch: k for ch, k in outs.items() if ch not in ("value", "jdeser")}
    kinds = set(outs.values())
    t = case["type"]
    if "panic" in kinds:
        bad = [ch for ch, k in outs.items() if k == "panic"]
        res.violate(f"decode-panic:{t}", f"decoding a {t} panicked in channels {bad}", case, obs, "ok or err")
    if "ok" in kinds and "err" in kinds:
        oks = sorted(ch for ch, k in outs.items() if k == "ok")
        errs = sorted(ch for ch, k in outs.items() if k == "err")
        msg = next(o["err"] for o in obs["ch"].values() if isinstance(o, dict) and "err" in o)
        res.violate(f"channel-dependent-acceptance:{t}:{errclass(msg)}",
                    f"a {t} ({case['meta']['spelling']} spelling) is accepted by {oks} and rejected by {errs}: {msg[:160]}", case, obs, "one outcome")
        return ("mixed", None)
    if kinds == {"ok"} and obs.get("all_eq") is not True and not str(case["meta"].get("textmut", "")).startswith("duplicate_member"):
        res.violate(f"channel-dependent-value:{t}", f"channels decode a {t} to different values", case, obs, "equal values")
    if "ok" in kinds:
        return ("ok", json.dumps(obs["rt"]["val"], sort_keys=True))
    return ("err", None)


def errclass(msg):
    for k in ("borrowed", "invalid type: string", "expected a borrowed string", "trailing", "missing field", "unknown"):
        if k in msg:
            return k.replace(" ", "-").replace(":", "")
    return "other"


def judge(case, obs, res):
    return judge_one(case, obs, res)


def shard(binpath, seed, sh, n):
    rng = common.rng_for(seed, PROP, sh)
    W = scen.World(binpath)
    res = common.Result()
    cases, groups = [], []
    for i in range(n):
        while True:
            t, d = corpus.gen_valid(rng, W) if i % 4 else corpus.gen_invalid(rng, W)
            if t in TYPES:
                break
        texts = {"plain": json.dumps(d, ensure_ascii=False),
                 "whitespace": jg.spell(d, rng, permute=False, ws=True, esc=False) if not has_float(d) else json.dumps(d, indent=2),
                 "escapes": jg.spell(d, rng, permute=False, ws=False, esc=True) if not has_float(d) else json.dumps(d, ensure_ascii=True)}
        g = []
        for sp, tx in texts.items():
            g.append(len(cases))
            c = {"op": "serde", "type": t, "text": tx, "meta": {"spelling": sp, "valid": bool(i % 4)}}
            if i % 7 == 0:
                # history: an earlier decode on the same thread read part of ANOTHER document and then hit an I/O error
                other = json.dumps(corpus.gen_valid(rng, W)[1], ensure_ascii=False)
                c["broken_first"] = {"text": other, "ok": rng.randrange(1, max(2, len(other.encode())))}
                c["meta"]["after_io_error"] = True
            cases.append(c)
        groups.append(g)
        if i % 3 == 0:
            # text-level variants around the document: each is judged on its own (one outcome over all channels)
            base = texts["plain"]
            k = rng.randrange(30)
            tx, how = {
                # (not for the "layout or link" wrapper type: its routes differ in decode target - untagged buffering recurses
                # over an ignored member, typed readers skip it without recursing - and are compared per target only)
                27: deep_member(base, d if t != "wrapper" else None, rng), 28: deep_member(base, d if t != "wrapper" else None, rng),
                29: deep_member(base, d if t != "wrapper" else None, rng),
                0: (base + "]", "trailing_bracket"), 1: (base + " x", "trailing_garbage"), 2: (base + base, "two_documents"),
                3: (base + " \n\t\r\n", "trailing_whitespace"), 4: (base + ",", "trailing_comma"), 5: (base + "\x00", "trailing_nul"),
                6: (" \n" + base, "leading_whitespace"), 7: ("\ufeff" + base, "leading_bom"), 8: (base[:max(1, len(base) - rng.randrange(1, 4))], "truncated"),
                9: (base + "}", "trailing_brace"), 10: (base + " null", "trailing_value"), 11: (base + "//c", "trailing_comment"),
                12: dup_member(base, d, False), 13: dup_member(base, d, True),
                17: non_ascii_id(base, rng, 63), 18: non_ascii_id(base, rng, 62),
                19: two_spellings_of_a_member(base, rng), 20: two_spellings_of_a_member(base, rng),
                21: long_list(base, d, rng), 22: long_list(base, d, rng),
                23: dual_shape(base, d, rng, W), 24: dual_shape(base, d, rng, W),
                25: ill_formed_in_ignored_member(base, d, rng), 26: ill_formed_in_ignored_member(base, d, rng),
                14: extra_number_member(base, d, rng, False), 15: extra_number_member(base, d, rng, True), 16: extra_number_member(base, d, rng, False),
            }[k]
            groups.append([len(cases)])
            tt = "wrapper" if how.startswith(("layout_and_link", "ill_formed")) and t in ("layout", "link", "wrapper") else t
            cases.append({"op": "serde", "type": tt, "text": tx,
                          "meta": {"spelling": "text:" + how, "valid": False, "textmut": how}})
    obs = common.run_batch(binpath, cases, keys=False)
    for g in groups:
        rs = []
        for ci in g:
            rs.append(judge_one(cases[ci], obs[ci], res))
        if any(r is None for r in rs):
            continue
        c0 = cases[g[0]]
        classes = {r[0] for r in rs}
        if "mixed" not in classes and len(classes) > 1:
            res.violate(f"spelling-dependent-acceptance:{c0['type']}",
                        f"a {c0['type']} is {dict(zip(('plain', 'whitespace', 'escapes'), [r[0] for r in rs]))} depending on the spelling of the same content",
                        cases[g[[r[0] for r in rs].index('err')]], [obs[ci].get("ch") for ci in g], "one outcome")
        vals = {r[1] for r in rs if r[0] == "ok"}
        if len(vals) > 1:
            res.violate(f"spelling-dependent-value:{c0['type']}", f"spellings of the same {c0['type']} decode to different values", c0, None, "one value")
        cls = [f"type:{c0['type']}", ("valid:" if c0["meta"]["valid"] else "mutated:") + "+".join(sorted(classes))]
        if any(cases[ci]["meta"].get("after_io_error") for ci in g):
            cls.append("history:after_failed_read:" + "+".join(sorted(classes)))
        if c0["meta"].get("textmut"):
            cls.append(f"text:{c0['meta']['textmut']}:" + "+".join(sorted(classes)))
        if "ok" in classes and len(classes) == 1:
            cls.append(f"all_channels_agree_ok:{c0['type']}")
            if '"MATCH"' in str(c0["text"]) or '"CREATE"' in str(c0["text"]) or '"ALLOW"' in str(c0["text"]):
                cls.append("contains_rules:ok")
            if "buildStartedOn" in str(c0["text"]) or "buildFinishedOn" in str(c0["text"]):
                cls.append("contains_timestamp:ok")
        res.note([c0["type"], str(c0["text"])], True, cls=cls, n=sum(len(obs[ci].get("ch", {})) for ci in g))
    if sh == 0:
        for g in groups[:2]:
            res.sample({"type": cases[g[0]]["type"], "spellings": {cases[ci]["meta"]["spelling"]: str(cases[ci]["text"])[:300] for ci in g},
                        "channels": {cases[ci]["meta"]["spelling"]: obs[ci].get("ch") for ci in g}})
    return res


def dup_member(base, d, escaped):
    """the document with its first member repeated at the end (optionally with the repeated name spelled with an escape)"""
    if not isinstance(d, dict) or not d or not base.endswith("}"):
        return (base + base, "two_documents")
    k = next(iter(d))
    name = json.dumps(k)
    if escaped and k:
        name = '"\\u%04x' % ord(k[0]) + json.dumps(k[1:])[1:]
        if ord(k[0]) > 0xFFFF:
            name = json.dumps(k)
    return (base[:-1] + "," + name + ":" + json.dumps(d[k], ensure_ascii=False) + "}", "duplicate_member" + ("_escaped" if escaped else ""))


def ill_formed_in_ignored_member(base, d, rng):
    """one more member that no decoder of the type looks at, whose string holds a byte sequence that is not UTF-8 (a Latin-1
    e-acute, a lone continuation byte): the document is offered as bytes"""
    if not isinstance(d, dict) or not base.endswith("}"):
        return (base + " \n", "trailing_whitespace")
    bad = rng.choice([b"caf\xe9", b"\x80", b"\xc3", b"ok\xff\xfe"])
    raw = base[:-1].encode() + (b"," if d else b"") + b'"x-note":"' + bad + b'"}'
    return ({"hex": raw.hex()}, "ill_formed_utf8_in_ignored_member")


def dual_shape(base, d, rng, W):
    """a document that carries every member of a layout AND every member of a link (neither form forbids further
    members), declaring itself one or the other"""
    if not isinstance(d, dict) or not ({"steps", "keys"} <= set(d) or {"materials", "products"} <= set(d)):
        return (base + " \n", "trailing_whitespace")
    lay = scen.mk_layout(W, ["ed4"], [scen.mk_step("s", 1, [W.kid("ed4")], [], [["ALLOW", "*"]], [])], [])
    lnk = scen.mk_link("s", {"a": scen.digest(1)}, {"b": scen.digest(2)}, ["c"], {"return-value": 0}, None)
    both = dict(lay, **lnk)
    both.update({k: v for k, v in d.items() if k != "_type"})
    both["_type"] = rng.choice(["link", "layout", "LINK", "both"])
    return (json.dumps(both, ensure_ascii=False), "layout_and_link_members_in_one_document")


def long_list(base, d, rng):
    """one list of the document repeated until it has 129 / 300 / 1100 elements (a text parser does not know the length of a
    list in advance, a tree does)"""
    if not isinstance(d, dict):
        return (base + " \n", "trailing_whitespace")
    cands = [k for k, v in d.items() if isinstance(v, list) and v]
    if not cands:
        return (base + " \n", "trailing_whitespace")
    k = "signatures" if "signatures" in cands else rng.choice(cands)
    n = rng.choice([129, 300, 1100])
    d2 = dict(d)
    d2[k] = (d[k] * (n // len(d[k]) + 1))[:n]
    return (json.dumps(d2, ensure_ascii=False), "list_with_more_than_128_elements")


def deep_member(base, d, rng):
    """an additional (ignored) member nested so that the document's total nesting lies around the text reader's limit of 128
    levels, the innermost container empty or holding a scalar: every channel that gets the document at all reads it alike"""
    if not isinstance(d, dict):
        return (base + " \n", "trailing_whitespace")
    depth = rng.choice([120, 124, 125, 126, 126, 127, 127, 128, 129])
    inner = rng.choice(["", "1", '"x"', "null", "{}"])
    open_, close = ("[", "]") if rng.random() < 0.7 else ('{"a":', "}")
    val = open_ * depth + (inner if open_ == "[" or inner else "0") + close * depth
    where = d.get("signed") if isinstance(d.get("signed"), dict) and rng.random() < 0.5 else d
    txt = json.dumps(d, ensure_ascii=False)
    if where is d:
        tx = txt[:-1] + (", " if len(d) else "") + '"x-deep": ' + val + "}"
    else:
        marker = '"signed": {'
        i = txt.find(marker)
        if i < 0:
            return (base + " \n", "trailing_whitespace")
        tx = txt[:i + len(marker)] + '"x-deep": ' + val + (", " if len(where) else "") + txt[i + len(marker):]
    return (tx, "member_nested_around_the_depth_limit")


def two_spellings_of_a_member(base, rng):
    """one digest object gets a second member whose name is the first one's in another letter case, with another value,
    after or before it: `{"sha256": A, "SHA256": B}` (text routes see members in document order, a tree in sorted order)"""
    import re
    m = re.search(r'\{"(sha256|sha512)": "([0-9a-f]+)"\}', base)
    if not m:
        return (base + " \n", "trailing_whitespace")
    alg, val = m.group(1), m.group(2)
    other = ("0" if val[0] != "0" else "1") + val[1:]
    alt = rng.choice([alg.upper(), alg.capitalize()])
    a, b = f'"{alg}": "{val}"', f'"{alt}": "{other}"'
    obj = "{" + (a + ", " + b if rng.random() < 0.6 else b + ", " + a) + "}"
    return (base[:m.start()] + obj + base[m.end():], "algorithm_name_in_two_letter_cases")


def non_ascii_id(base, rng, nhex):
    """one 64-digit hexadecimal string of the document (a key id, a digest) replaced by a two-byte character followed by
    63 digits (64 characters, 65 bytes) or by 62 digits (63 characters, 64 bytes)"""
    import re
    hs = re.findall(r'"([0-9a-f]{64})"', base)
    if not hs:
        return (base + " \n", "trailing_whitespace")
    h = rng.choice(hs)
    ch = rng.choice(["é", "ß", "\u00e9"])
    return (base.replace('"' + h + '"', '"' + ch + h[:nhex] + '"', 1), f"non_ascii_64_{'chars' if nhex == 63 else 'bytes'}_id")


def extra_number_member(base, d, rng, nested):
    """the document with one additional member that no decoder looks at, holding a number that is not a 64-bit integer
    (fraction, exponent, beyond u64): at the top level, or inside the first object-valued member"""
    if not isinstance(d, dict) or not base.endswith("}"):
        return (base + " \n", "trailing_whitespace")
    num = rng.choice(["1.5", "0.1", "-2.5e3", "1e2", "1E-7", "18446744073709551616", "-9223372036854775809", "3.0", "[1, 2.5]", '{"v": 0.5}'])
    name = rng.choice(["x-unused", "zz_extra", "_comment"])
    if nested:
        for k, v in d.items():
            if isinstance(v, dict):
                d2 = dict(d)
                inner = json.dumps(v, ensure_ascii=False)
                inner = inner[:-1] + ("," if v else "") + json.dumps(name) + ":" + num + "}"
                parts = [json.dumps(kk) + ":" + (inner if kk == k else json.dumps(vv, ensure_ascii=False)) for kk, vv in d2.items()]
                return ("{" + ",".join(parts) + "}", "extra_number_member_nested")
    return (base[:-1] + ("," if d else "") + json.dumps(name) + ":" + num + "}", "extra_number_member")


def has_float(d):
    if isinstance(d, float):
        return True
    if isinstance(d, list):
        return any(has_float(x) for x in d)
    if isinstance(d, dict):
        return any(has_float(x) for x in d.values())
    return False


def file_route(binpath, res):
    """the link directory is one more way a document reaches the parser: the same link text that every other channel
    accepts, with insignificant leading white space moving each multi-byte character of its content across every position of
    a 4 KiB ... 64 KiB offset (where readers that work in blocks cut the text), raw and as escape sequences"""
    import pipeline
    W = scen.World(binpath)
    steps = [scen.mk_step("build", 1, [W.kid("ed4")], [], [["ALLOW", "*"]], [["ALLOW", "*"]])]
    layout = scen.mk_layout(W, ["ed4"], steps, [])
    doc = pipeline.leaf_link("build", 0, byp={"stdout": "caf\u00e9 \u65e5\u672c \U0001F600 done", "stderr": "", "return-value": 0})
    lw, link = scen.sign_all(binpath, [(layout, ["ed0"], "new"), (doc, ["ed4"], "new")], nproc=1)
    keys = [[W.kid("ed0"), W.pub("ed0")]]
    fname = f"build.{W.pfx('ed4')}.link"
    cases = []
    for spelling, text in (("raw", json.dumps(link, ensure_ascii=False)), ("escaped", json.dumps(link, ensure_ascii=True))):
        tb = text.encode()
        cases.append(scen.verify_case(lw, keys, {fname: text}, meta={"pad": 0, "spelling": spelling, "split": "-"}))
        if spelling == "escaped":
            marks = [(tb.index(b"\\u00e9"), 6), (tb.index(b"\\ud83d"), 12)]
        else:
            marks = [(tb.index(ch.encode()), len(ch.encode())) for ch in ("\u00e9", "\u65e5", "\U0001F600")]
        for B in (4096, 8192, 16384, 32768, 65536):
            for idx, ln in marks:
                for sp in range(0, ln + 1):
                    pad = B - (idx + sp)
                    if pad < 0:
                        continue
                    ws = " " * pad if (B + sp) % 3 else ("\n" * (pad // 2) + " " * (pad - pad // 2))
                    cases.append(scen.verify_case(lw, keys, {fname: ws + text}, meta={"pad": pad, "spelling": spelling, "split": f"{B}:{sp}/{ln}"}))
    obs = common.run_sharded(binpath, cases)
    ref = None
    for c, o in zip(cases, obs):
        m = c["meta"]
        if scen.harness_failed(o):
            res.inconclusive.append(f"executor failure: {str(o)[:200]}")
            continue
        r = o["runs"][0]
        out = (r["v"], json.dumps(r.get("summary"), sort_keys=True) if r["v"] == "ok" else "")
        if m["pad"] == 0 and m["spelling"] == "raw":
            ref = out
            if r["v"] != "ok":
                res.inconclusive.append(f"file route: the plain link file is rejected: {r.get('e')}")
                return
        elif ref is not None and out != ref:
            res.violate(f"file-route-depends-on-layout-of-text:{m['spelling']}",
                        f"a link file whose text differs from an accepted one only by {m['pad']} leading white-space characters "
                        f"({m['spelling']} spelling; a character at offset split {m['split']}) is "
                        f"{'rejected: ' + str(r.get('e')) if r['v'] != 'ok' else 'read as another value'}", c, o, "same outcome")
        res.note(["file_route", m["spelling"], m["pad"]], True, cls=["file_route:" + m["spelling"], "file_route:" + r["v"]])


def main(ctx):
    res = common.Result()
    n = 350 if not ctx.thorough else 12000
    for p in common.pmap(shard, [(ctx.bin, ctx.seed, s, n) for s in range(common.NPROC)]):
        res.merge(p)
    file_route(ctx.bin, res)
    return common.finish(
        PROP, ctx.tier, ctx.seed, res, t0=ctx.t0,
        rule="valid (75%) and single-field-mutated (25%) documents of 14 public types x 3 spellings (plain, whitespace, "
             "\\uXXXX/short escapes in every string incl. keywords, digests, timestamps) x 8 channels (from_str, from_slice, "
             "chunked from_reader, from_value, Json::from_reader/from_slice/deserialize, JsonPretty::from_reader); "
             "every document non-trivial; distinct by (type, text); evaluations = channel decodings",
        assumptions=["serde_json::Value parsing defines 'the same content' for a spelling"],
        required=["file_route:raw", "file_route:escaped", "file_route:ok"] + [f"all_channels_agree_ok:{t}" for t in ("metablock", "layout", "link", "pubkey", "rule", "step", "inspection", "statement", "predicate")] +
                 ["contains_rules:ok", "contains_timestamp:ok", "mutated:err", "text:trailing_bracket:err", "text:two_documents:err",
                  "text:trailing_whitespace:ok", "text:leading_whitespace:ok", "text:truncated:err", "history:after_failed_read:ok",
                  "text:duplicate_member:err", "text:extra_number_member:ok", "text:extra_number_member_nested:ok"],
        min_evals=10000)
