//! signing, block verification, raw signatures, key construction paths

use in_toto::crypto::{PrivateKey, PublicKey, Signature};
use in_toto::interchange::{DataInterchange, Json, JsonPretty};
use in_toto::models::{Metablock, MetablockBuilder, MetadataWrapper};
use serde_json::{json, Value};

use crate::keys::{scheme_of, Registry};
use crate::util::{bytes_of, clip, guarded, hex, outcome, unhex};

/// {signed: <json>, signers: [names], via: new|builder|raw_builder, writers?: bool}
pub fn sign(case: &Value, reg: &Registry) -> Value {
    let signers: Vec<&PrivateKey> = case["signers"]
        .as_array()
        .map(|a| a.iter().map(|n| reg.get(n.as_str().unwrap())).collect())
        .unwrap_or_default();
    let via = case["via"].as_str().unwrap_or("new");
    let signed = case["signed"].clone();
    let r = guarded(|| -> in_toto::Result<Metablock> {
        match via {
            "raw_builder" | "raw_builder_pretty" => {
                // the caller's bytes are one of many texts of the document, not its canonical form
                let raw = if via == "raw_builder" {
                    serde_json::to_vec(&signed).unwrap()
                } else {
                    serde_json::to_vec_pretty(&signed).unwrap()
                };
                Ok(MetablockBuilder::from_raw_metadata(&raw)?
                    .sign(&signers)?
                    .build())
            }
            "api" | "api_builder" => {
                // the value is built through the public constructors/builders, not parsed
                let meta = crate::api_build::build(&signed)
                    .map_err(in_toto::Error::Programming)?;
                if via == "api" {
                    Metablock::new(meta, &signers)
                } else {
                    Ok(MetablockBuilder::from_metadata(meta.into_trait())
                        .sign(&signers)?
                        .build())
                }
            }
            "builder" => {
                let meta: MetadataWrapper =
                    serde_json::from_str(&serde_json::to_string(&signed)?)?;
                Ok(MetablockBuilder::from_metadata(meta.into_trait())
                    .sign(&signers)?
                    .build())
            }
            _ => {
                // text channel on purpose: channel (in)dependence is C17's subject
                let meta: MetadataWrapper =
                    serde_json::from_str(&serde_json::to_string(&signed)?)?;
                Metablock::new(meta, &signers)
            }
        }
    });
    let writers = case["writers"].as_bool().unwrap_or(false);
    outcome(r, |mb| {
        let mut o = json!({"wire": serde_json::to_value(&mb).unwrap()});
        if writers {
            let mut cj = Vec::new();
            let mut cjp = Vec::new();
            let a = Json::to_writer(&mut cj, &mb).is_ok();
            let b = JsonPretty::to_writer(&mut cjp, &mb).is_ok();
            o["compact"] = json!(serde_json::to_string(&mb).unwrap());
            o["pretty"] = json!(serde_json::to_string_pretty(&mb).unwrap());
            if a {
                o["cjson"] = json!(String::from_utf8_lossy(&cj));
            }
            if b {
                o["cjson_pretty"] = json!(String::from_utf8_lossy(&cjp));
            }
        }
        o
    })
}

fn parse_keys(v: &Value) -> Result<Vec<PublicKey>, String> {
    let mut res = Vec::new();
    for k in v.as_array().map(|a| a.as_slice()).unwrap_or(&[]) {
        if let Some(spki) = k.get("spki").and_then(|x| x.as_str()) {
            // a key imported from DER with a caller-chosen scheme (the JSON form cannot
            // carry a scheme that does not fit the key type)
            res.push(
                PublicKey::from_spki(
                    &unhex(spki),
                    scheme_of(k["scheme"].as_str().unwrap_or("")),
                )
                .map_err(|e| e.to_string())?,
            );
            continue;
        }
        res.push(
            crate::util::via_text::<PublicKey>(k).map_err(|e| e.to_string())?,
        );
    }
    Ok(res)
}

/// {text, threshold, auth: [pubjson], orig?: text}
pub fn block(case: &Value) -> Value {
    let text = bytes_of(&case["text"]);
    // how the bytes written by the library are read back: from memory, from a stream, through a parsed JSON tree
    let route = case["route"].as_str().unwrap_or("slice").to_string();
    let parsed = guarded(|| -> Result<Metablock, String> {
        match route.as_str() {
            "reader" => serde_json::from_reader::<_, Metablock>(
                crate::util::ChunkReader::new(&text),
            )
            .map_err(|e| e.to_string()),
            "json_reader" => Json::from_reader::<_, Metablock>(
                crate::util::ChunkReader::new(&text),
            )
            .map_err(|e| e.to_string()),
            "value" => serde_json::from_slice::<Value>(&text)
                .and_then(serde_json::from_value::<Metablock>)
                .map_err(|e| e.to_string()),
            "json_deserialize" => serde_json::from_slice::<Value>(&text)
                .map_err(|e| e.to_string())
                .and_then(|v| {
                    Json::deserialize::<Metablock>(&v).map_err(|e| e.to_string())
                }),
            _ => serde_json::from_slice::<Metablock>(&text)
                .map_err(|e| e.to_string()),
        }
    });
    let mb = match parsed {
        Ok(Ok(mb)) => mb,
        Ok(Err(e)) => return json!({"parse": {"err": clip(&e)}}),
        Err(p) => return json!({"parse": {"panic": p}}),
    };
    let mut mb = mb;
    let mut o = json!({"parse": "ok"});
    if let Some(kind) = case.get("mem_edit").and_then(|v| v.as_str()) {
        // a change made to the parsed value in memory, through its public fields, after signing
        let before = mb.metadata.clone();
        o["mem_edit_applied"] = json!(crate::util::mem_edit(&mut mb, kind));
        o["mem_edit_changed_value"] = json!(before != mb.metadata);
    }
    if let Some(orig) = case.get("orig") {
        let ob = bytes_of(orig);
        o["same_as_orig"] = match serde_json::from_slice::<Metablock>(&ob) {
            Ok(om) => json!(om.metadata == mb.metadata),
            Err(_) => Value::Null,
        };
    }
    let auth = match parse_keys(&case["auth"]) {
        Ok(a) => a,
        Err(e) => {
            o["auth_err"] = json!(e);
            return o;
        }
    };
    let threshold = case["threshold"].as_u64().unwrap_or(1) as u32;
    let mut mb = mb;
    if case["relabel_to_auth0"].as_bool().unwrap_or(false) && !auth.is_empty() {
        // attribute every signature entry to the first authorised key (whose id the generator
        // need not know)
        let id = serde_json::to_value(auth[0].key_id()).unwrap();
        let sigs: Vec<Signature> = mb
            .signatures
            .iter()
            .map(|s| {
                let mut v = serde_json::to_value(s).unwrap();
                v["keyid"] = id.clone();
                crate::util::via_text::<Signature>(&v).unwrap()
            })
            .collect();
        mb.signatures = sigs;
    }
    let r = guarded(|| mb.verify(threshold, auth.iter()));
    o["verify"] = match r {
        Ok(Ok(meta)) => {
            o["ret_eq"] = json!(meta == mb.metadata);
            // independent of PartialEq: the returned value re-serialises to
            // the `signed` member the caller put on the wire
            let wire: Option<Value> = serde_json::from_slice::<Value>(&text)
                .ok()
                .map(|v| v["signed"].clone());
            o["ret_wire"] = serde_json::to_value(&meta).unwrap_or(Value::Null);
            if let MetadataWrapper::Layout(l) = &meta {
                // the key table of the returned value as it is in memory (public field), independent of any writer
                let mut ids: Vec<(String, String)> = l
                    .keys
                    .iter()
                    .map(|(id, k)| {
                        (
                            serde_json::to_value(id).ok().and_then(|v| v.as_str().map(String::from)).unwrap_or_default(),
                            serde_json::to_value(k.key_id()).ok().and_then(|v| v.as_str().map(String::from)).unwrap_or_default(),
                        )
                    })
                    .collect();
                ids.sort();
                o["ret_layout_keys"] = json!(ids);
                o["ret_layout_counts"] = json!([l.steps.len(), l.inspect.len()]);
            }
            o["in_wire"] = wire.unwrap_or(Value::Null);
            json!("ok")
        }
        Ok(Err(e)) => json!({"err": clip(&e.to_string())}),
        Err(p) => json!({"panic": p}),
    };
    o
}

/// {key: name, msg: hex|text}
pub fn rawsig(case: &Value, reg: &Registry) -> Value {
    let msg = bytes_of(&case["msg"]);
    let k = reg.get(case["key"].as_str().unwrap());
    outcome(guarded(|| k.sign(&msg)), |s| {
        serde_json::to_value(&s).unwrap()
    })
}

/// {pub: pubjson, msg: hex|text, sig: {keyid, sig}}
pub fn rawverify(case: &Value) -> Value {
    let msg = bytes_of(&case["msg"]);
    let k = match crate::util::via_text::<PublicKey>(&case["pub"]) {
        Ok(k) => k,
        Err(e) => return json!({"key_err": e.to_string()}),
    };
    let s = match crate::util::via_text::<Signature>(&case["sig"]) {
        Ok(s) => s,
        Err(e) => return json!({"sig_err": e.to_string()}),
    };
    outcome(guarded(|| k.verify(&msg, &s)), |_| json!(true))
}

fn describe(k: &PublicKey) -> Value {
    let js = serde_json::to_value(k).unwrap_or(Value::Null);
    // JSON round trip
    let back = serde_json::from_value::<PublicKey>(js.clone());
    let (rt_id, rt_eq) = match &back {
        Ok(b) => (
            serde_json::to_value(b.key_id()).unwrap(),
            json!(b == k),
        ),
        Err(e) => (json!({"err": e.to_string()}), json!(false)),
    };
    json!({
        "keyid": serde_json::to_value(k.key_id()).unwrap(),
        "pub": js,
        "spki": k.as_spki().map(|b| json!(hex(&b))).unwrap_or(Value::Null),
        "raw": hex(k.as_bytes()),
        "rt_keyid": rt_id,
        "rt_eq": rt_eq,
    })
}

/// {paths: [{how, ...}]}: every public-key construction path
pub fn keys12(case: &Value) -> Value {
    let mut out = Vec::new();
    let mut built: Vec<Option<PublicKey>> = Vec::new();
    for p in case["paths"].as_array().unwrap() {
        let how = p["how"].as_str().unwrap();
        let scheme = scheme_of(p["scheme"].as_str().unwrap_or("ed25519"));
        let r = guarded(|| -> in_toto::Result<PublicKey> {
            match how {
                "spki" => PublicKey::from_spki(
                    &unhex(p["hex"].as_str().unwrap()),
                    scheme,
                ),
                "pem" => PublicKey::from_pem_spki(
                    p["text"].as_str().unwrap(),
                    scheme,
                ),
                "ed_raw" => {
                    let b = unhex(p["hex"].as_str().unwrap());
                    if p["hash_algs"].as_bool().unwrap_or(false) {
                        PublicKey::from_ed25519_with_keyid_hash_algorithms(
                            b,
                            Some(vec!["sha256".into(), "sha512".into()]),
                        )
                    } else {
                        PublicKey::from_ed25519(b)
                    }
                }
                "ecdsa_raw" => {
                    let b = unhex(p["hex"].as_str().unwrap());
                    if p["hash_algs"].as_bool().unwrap_or(false) {
                        PublicKey::from_ecdsa_with_keyid_hash_algorithms(
                            b,
                            Some(vec!["sha256".into(), "sha512".into()]),
                        )
                    } else {
                        PublicKey::from_ecdsa(b)
                    }
                }
                "pk8" => Ok(PrivateKey::from_pkcs8(
                    &unhex(p["hex"].as_str().unwrap()),
                    scheme,
                )?
                .public()
                .clone()),
                "ed_keypair" => Ok(PrivateKey::from_ed25519(&unhex(
                    p["hex"].as_str().unwrap(),
                ))?
                .public()
                .clone()),
                "json" => Ok(serde_json::from_value::<PublicKey>(
                    p["value"].clone(),
                )?),
                _ => panic!("harness: unknown path {}", how),
            }
        });
        match r {
            Ok(Ok(k)) => {
                let mut d = describe(&k);
                d["how"] = json!(how);
                out.push(json!({"ok": d}));
                built.push(Some(k));
            }
            Ok(Err(e)) => {
                out.push(json!({"err": clip(&e.to_string()), "how": how}));
                built.push(None);
            }
            Err(pn) => {
                out.push(json!({"panic": pn, "how": how}));
                built.push(None);
            }
        }
    }
    // pairwise equality (PartialEq) of everything that was built
    let mut eq = Vec::new();
    for a in &built {
        let mut row = Vec::new();
        for b in &built {
            row.push(match (a, b) {
                (Some(a), Some(b)) => json!(a == b),
                _ => Value::Null,
            });
        }
        eq.push(Value::Array(row));
    }
    json!({"paths": out, "eq": eq})
}
