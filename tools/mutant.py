#!/usr/bin/env python3
"""Evaluate a seeded change (made by an independent sub-agent in a scratch worktree) against the checks.

  tools/mutant.py verify <worktree>            re-confirm: suite passes with the change, demo fails with / passes without
  tools/mutant.py eval <worktree> <ID> [ID..]  apply the library change to /repo, run the quick checks, undo
  tools/mutant.py keep <worktree> <name> <ID>  store patch.diff + demonstration + meta.json under /verif/seeded/<name>/

The library change is `git diff` of the worktree restricted to tracked files under src/ minus demonstration wiring.
"""
import json
import os
import re
import shutil
import subprocess
import sys
import time

VERIF = os.path.dirname(os.path.dirname(os.path.abspath(__file__)))


def sh(cmd, cwd=None, timeout=3600):
    p = subprocess.run(cmd, shell=True, cwd=cwd, stdout=subprocess.PIPE, stderr=subprocess.STDOUT, text=True, timeout=timeout)
    return p.returncode, p.stdout


def library_patch(wt):
    """diff of the tracked files that make up the library change (default: everything under src/ and Cargo.toml;
    MUTANT_PATCH_FILES="a b" restricts it, e.g. to leave out the wiring of a unit-test demonstration)"""
    files = os.environ.get("MUTANT_PATCH_FILES", "src Cargo.toml")
    rc, diff = sh(f"git diff -- {files}", cwd=wt)
    return diff.rstrip("\n")


def demo_files(wt):
    rc, out = sh("git status --short --untracked-files=all", cwd=wt)
    files = []
    for l in out.splitlines():
        st, path = l[:2], l[3:].strip()
        if st == "??" and (path.startswith("tests/") or path.startswith("src/demo_") or path.startswith("examples/")) and not path.endswith(".link"):
            files.append(path)
    return files


def verify(wt):
    res = {}
    demos = demo_files(wt)
    res["demo_files"] = demos
    names = [os.path.splitext(os.path.basename(d))[0] for d in demos if d.startswith("tests/") and d.endswith(".rs") and d.count("/") == 1]
    unit = [os.path.splitext(os.path.basename(d))[0] for d in demos if d.startswith("src/demo_")]
    def run_demo():
        outs = []
        ok = True
        for n in names:
            rc, out = sh(f"cargo test --offline --test {n} 2>&1 | tail -15", cwd=wt)
            passed = "test result: ok" in out
            outs.append((n, passed))
            ok &= passed
        for n in unit:
            rc, out = sh(f"cargo test --offline --lib {n} 2>&1 | tail -15", cwd=wt)
            passed = "test result: ok" in out and " 0 passed" not in out
            outs.append((n, passed))
            ok &= passed
        return ok, outs
    with_change, o1 = run_demo()
    res["demo_with_change_passes"] = with_change
    suite = []
    for part in ("--lib", "--test runlib", "--doc"):
        skip = " -- --skip demo_" if part == "--lib" else ""
        rc, out = sh(f"cargo test --offline {part}{skip} 2>&1 | grep -E '^test result' ", cwd=wt)
        suite.append(part + ": " + out.strip())
    res["suite_with_change"] = suite
    # stash only tracked changes under src (the library change); keep demo files; keep lib.rs wiring if any
    patch = library_patch(wt)
    open(os.path.join(wt, ".libpatch.diff"), "w").write(patch + "\n")
    rc, out = sh("git apply -R --whitespace=nowarn .libpatch.diff", cwd=wt)
    if rc != 0:
        res["error"] = "could not reverse the library patch: " + out[-300:]
        return res
    try:
        without, o2 = run_demo()
        res["demo_without_change_passes"] = without
    finally:
        rc, out = sh("git apply --whitespace=nowarn .libpatch.diff", cwd=wt)
        if rc != 0:
            res["error"] = "could not re-apply the library patch: " + out[-300:]
    res["confirmed"] = (not with_change) and res.get("demo_without_change_passes") is True and \
        all("test result: ok" in l and " 0 failed" in l for l in res["suite_with_change"]) and bool(names or unit)
    return res


def evaluate(wt, props, tier="quick"):
    patch = library_patch(wt)
    pf = "/tmp/.mutant_eval.diff"
    open(pf, "w").write(patch + "\n")
    rc, out = sh("git status --short", cwd="/repo")
    if out.strip():
        print("refusing: /repo has uncommitted changes:\n" + out)
        sys.exit(2)
    rc, out = sh(f"git apply --whitespace=nowarn {pf}", cwd="/repo")
    if rc != 0:
        print("patch does not apply to /repo:", out[-500:])
        sys.exit(2)
    results = {}
    try:
        for p in props:
            t = time.time()
            rc, out = sh(f"./check {p} --tier {tier}", cwd=VERIF, timeout=7200)
            v = [l for l in out.splitlines() if l.startswith(("VIOLATION", "INCONCLUSIVE", "KNOWN-FINDING"))]
            detail = [l.strip() for l in out.splitlines() if l.startswith("  ")][:3]
            results[p] = {"rc": rc, "lines": v[:4], "detail": detail, "wall_s": round(time.time() - t, 1)}
            print(p, "rc=%d" % rc, (v[:1] or ["-"])[0][:160], (detail[:1] or [""])[0][:200])
    finally:
        sh("git checkout -- .", cwd="/repo")
        shutil.rmtree(os.path.join(VERIF, "replays"), ignore_errors=True)
        os.unlink(pf)
    return results


def keep(wt, name, prop, ran):
    d = os.path.join(VERIF, "seeded", name)
    os.makedirs(d, exist_ok=True)
    open(os.path.join(d, "patch.diff"), "w").write(library_patch(wt) + "\n")
    for f in demo_files(wt):
        shutil.copy(os.path.join(wt, f), os.path.join(d, os.path.basename(f)))
    if os.path.exists(os.path.join(wt, "MUTANT.md")):
        shutil.copy(os.path.join(wt, "MUTANT.md"), os.path.join(d, "MUTANT.md"))
    meta = {"breaks_property": prop, "origin": "independent sub-agent given only the property text and a scratch worktree",
            "needs_to_manifest": "see MUTANT.md", "confirmation": ran.get("verify"), "checks_run": ran.get("eval")}
    json.dump(meta, open(os.path.join(d, "meta.json"), "w"), indent=1)
    print("kept", d)


def sweep(names, props):
    """apply every kept patch in turn and run the given quick checks; writes seeded/RESULTS.json"""
    out_path = os.path.join(VERIF, "seeded", "RESULTS.json")
    results = json.load(open(out_path)) if os.path.exists(out_path) else {}
    rc, out = sh("git status --short", cwd="/repo")
    if out.strip():
        print("refusing: /repo has uncommitted changes")
        sys.exit(2)
    for name in names:
        d = os.path.join(VERIF, "seeded", name)
        meta = json.load(open(os.path.join(d, "meta.json")))
        rc, out = sh(f"git apply --whitespace=nowarn {d}/patch.diff", cwd="/repo")
        if rc != 0:
            print(name, "patch does not apply:", out[-200:])
            results[name] = {"error": "patch does not apply"}
            continue
        # SWEEP_MODE=target runs only the check of the property the change was written against; SWEEP_MODE=only:C17,C02 runs
        # the named checks; in both cases the other columns of an existing row are kept
        mode = os.environ.get("SWEEP_MODE", "full")
        all_props = props
        row = {}
        if mode != "full":
            row = dict(results.get(name, {}).get("checks", {}))
            props = [meta["breaks_property"]] if mode == "target" else mode.split(":", 1)[1].split(",")
        try:
            def one(p):
                rc, out = sh(f"./check {p} --tier quick", cwd=VERIF, timeout=7200)
                sig = [l.strip().split(": ")[0] for l in out.splitlines() if l.startswith("  ")][:2]
                return p, {"rc": rc, "sig": sig}
            # the first check also rebuilds the executor against the patched tree; the others then run four at a time
            first, rest = props[0], props[1:]
            row[first] = one(first)[1]
            from concurrent.futures import ThreadPoolExecutor
            if rest:
                with ThreadPoolExecutor(max_workers=int(os.environ.get("SWEEP_JOBS", "4"))) as ex:
                    for p, r in ex.map(one, rest):
                        row[p] = r
            # a check that came back inconclusive under the parallel load is repeated alone
            for p in props:
                if row[p]["rc"] == 2:
                    row[p] = one(p)[1]
        finally:
            sh("git checkout -- .", cwd="/repo")
            shutil.rmtree(os.path.join(VERIF, "replays"), ignore_errors=True)
        props = all_props
        results[name] = {"breaks": meta["breaks_property"], "checks": row}
        caught = [p for p, r in row.items() if r["rc"] == 1]
        incon = [p for p, r in row.items() if r["rc"] == 2]
        print(name, "breaks", meta["breaks_property"], "| caught by", caught, "| inconclusive", incon, flush=True)
        json.dump(results, open(out_path, "w"), indent=1)
    return results


def table():
    """markdown table of seeded/RESULTS.json for DESIGN.md"""
    res = json.load(open(os.path.join(VERIF, "seeded", "RESULTS.json")))
    lines = ["| seeded change | breaks | what it does (needs to manifest: see seeded/<name>/MUTANT.md) | quick checks that report a VIOLATION | first signature reported by the target check |",
             "|---|---|---|---|---|"]
    for name in sorted(res, key=lambda n: (res[n].get("breaks", ""), n)):
        r = res[name]
        if "checks" not in r:
            continue
        caught = [p for p, c in r["checks"].items() if c["rc"] == 1]
        incon = [p for p, c in r["checks"].items() if c["rc"] == 2]
        tgt = r["checks"].get(r["breaks"], {})
        sig = (tgt.get("sig") or ["-"])[0][:90]
        what = ""
        md = os.path.join(VERIF, "seeded", name, "MUTANT.md")
        if os.path.exists(md):
            txt = open(md).read()
            m = re.search(r"(?im)^(?:#+\s*)?(?:what|the change|change)[^\n]*\n+(.+?)(?:\n\n|\n#)", txt, re.S)
            what = (m.group(1) if m else txt[:300]).replace("\n", " ").replace("|", "/")[:230]
        mark = "" if r["breaks"] in caught else " **(target check silent)**"
        if len(r["checks"]) < 20:
            mark += f" [only {len(r['checks'])} of the 20 checks were run against this change in the last sweep]"
        lines.append(f"| `{name}` | {r['breaks']} | {what} | {', '.join(caught) or '-'}{mark}" + (f" (inconclusive: {', '.join(incon)})" if incon else "") + f" | `{sig}` |")
    print("\n".join(lines))


if __name__ == "__main__":
    cmd = sys.argv[1]
    if cmd == "table":
        table()
        sys.exit(0)
    if cmd == "sweep":
        allp = ["C%02d" % i for i in range(1, 21)]
        names = sorted(n for n in os.listdir(os.path.join(VERIF, "seeded")) if os.path.isdir(os.path.join(VERIF, "seeded", n)))
        if len(sys.argv) > 2:
            names = [n for n in names if any(n.startswith(a) for a in sys.argv[2:])]
        sweep(names, allp)
        sys.exit(0)
    wt = sys.argv[2]
    if cmd == "verify":
        print(json.dumps(verify(wt), indent=1))
    elif cmd == "eval":
        evaluate(wt, sys.argv[3:])
    elif cmd == "full":
        name, prop = sys.argv[3], sys.argv[4]
        v = verify(wt)
        print(json.dumps(v, indent=1))
        if not v.get("confirmed"):
            print("NOT CONFIRMED")
            sys.exit(1)
        e = evaluate(wt, sys.argv[4:])
        keep(wt, name, prop, {"verify": v, "eval": e})
