"""Executable reference model of in-toto artifact-rule processing (specification §4.3.3 /
reference implementation verify_item_rules + verify_match_rule), independent of the glob and
path-clean crates: Python's fnmatch is the matcher the reference implementation uses.

Domain (as the property states it): normalised relative paths, portable glob syntax.
"""
from fnmatch import fnmatchcase


class RuleFailure(Exception):
    pass


def parse_rule(r):
    k = r[0]
    if k != "MATCH":
        return {"kind": k, "pattern": r[1]}
    d = {"kind": k, "pattern": r[1], "src_prefix": None, "dst_prefix": None}
    i = 2
    if r[i] == "IN":
        d["src_prefix"] = r[i + 1]
        i += 2
    assert r[i] == "WITH"
    d["dst_type"] = r[i + 1].lower()
    i += 2
    if r[i] == "IN":
        d["dst_prefix"] = r[i + 1]
        i += 2
    assert r[i] == "FROM"
    d["dst_name"] = r[i + 1]
    return d


def match_rule(rule, queue, source_artifacts, links, relax=()):
    consumed = set()
    dest = links.get(rule["dst_name"])
    if dest is None:
        return consumed
    dest_artifacts = dest[rule["dst_type"]]
    for full in queue:
        if rule["src_prefix"]:
            pre = rule["src_prefix"].rstrip("/") + "/"
            if full.startswith(pre):
                path = full[len(pre):]
            elif "ignore_missing_src_prefix" in relax:
                path = full
            else:
                continue
        else:
            path = full
        if "ignore_match_pattern" not in relax and not fnmatchcase(path, rule["pattern"]):
            continue
        if rule["dst_prefix"]:
            dfull = rule["dst_prefix"].rstrip("/") + "/" + path
        else:
            dfull = path
        if dfull not in dest_artifacts:
            continue
        if source_artifacts[full] != dest_artifacts[dfull]:
            continue
        consumed.add(full)
    return consumed


def verify_item(item, links, bad_pattern=lambda p: False, relax=()):
    """item: step/inspection dict (wire form); links: name -> link dict (wire form).
    Raises RuleFailure if the specification's algorithm rejects.  `relax` switches individual
    clauses off; it is used only to *classify* a disagreement for the violation signature."""
    src = links.get(item["name"])
    if src is None:
        raise RuleFailure("no link for item")
    materials, products = src["materials"], src["products"]
    mset, pset = set(materials), set(products)
    created = pset - mset
    deleted = mset - pset
    modified = {p for p in mset & pset if materials[p] != products[p]}
    for which, rules, artifacts in (("materials", item["expected_materials"], materials),
                                    ("products", item["expected_products"], products)):
        queue = set(artifacts)
        for raw in rules:
            r = parse_rule(raw)
            k, pat = r["kind"], r["pattern"]
            if k == "DISALLOW" and bad_pattern(pat):
                if "skip_bad_disallow" in relax:
                    continue
                raise RuleFailure(f"DISALLOW with uninterpretable pattern {pat!r} ({which})")
            if k == "MATCH":
                consumed = match_rule(r, queue, artifacts, links, relax)
            else:
                filtered = {p for p in queue if fnmatchcase(p, pat)}
                if k == "CREATE":
                    consumed = filtered & created
                elif k == "DELETE":
                    consumed = filtered & deleted
                elif k == "MODIFY":
                    consumed = filtered & modified
                elif k == "ALLOW":
                    consumed = filtered
                elif k == "REQUIRE":
                    if pat not in queue:
                        raise RuleFailure(f"REQUIRE {pat!r} not in {which} queue")
                    consumed = set()
                elif k == "DISALLOW":
                    if filtered:
                        raise RuleFailure(f"DISALLOW {pat!r} matches {sorted(filtered)} in {which}")
                    consumed = set()
                else:
                    raise ValueError(k)
            queue -= consumed
    return True


def decide(item, links, bad_pattern=lambda p: False, relax=()):
    try:
        verify_item(item, links, bad_pattern, relax)
        return True
    except RuleFailure:
        return False
