"""C14 — untrusted bytes can make verification fail but never crash it.

Crash monitor: every entry point that consumes attacker-controllable data is fed random bytes,
mutations of valid documents / DER / PEM blobs and well-typed adversarial documents, in-process
under catch_unwind with a panic hook (file:line + message), inside supervised sub-processes with
CPU and address-space limits (process death => abort / stack overflow; CPU limit => hang, both
reproduced in isolation before being reported).  Thorough repeats the corpus under an
AddressSanitizer build, a plain release build, valgrind memcheck and Miri (pure-Rust entry
points), and runs coverage-guided libFuzzer targets.
"""
import base64
import copy
import json
import os
import re
import shutil
import subprocess
import time

import attgen
import common
import corpus
import docgen
import pipeline
import scen
from props import c12

PROP = "C14"
SCHEMES = ["ed25519", "rsassa-pss-sha256", "rsassa-pss-sha512", "ecdsa-sha2-nistp256", "bogus"]

NONASCII_IDS = ["é" * 32, "€" * 21 + "x", "😀" * 16, "a" * 7 + "é" + "b" * 55, "\u0000" * 64, "ä" + "0" * 62, "0" * 63 + "é"[:1]]
TOKENS_STR = NONASCII_IDS + ["", "\x00", "A" * 70000, "../../etc/passwd", "/abs/path", "a/./b", "a//b", "a/../a", ".", "..", "*",
                             "[", "**", "a**b", "{", "\\", "[abc", "st*p", "a/b", "?" * 9, "%s%n", "퟿", "￿", " ", "\n",
                             "0" * 64, "f" * 64, "G" * 64, "ab" * 31 + "zz", "-----BEGIN PUBLIC KEY-----\n\n-----END PUBLIC KEY-----",
                             "-----BEGIN PUBLIC KEY-----\nAAAA\n-----END PUBLIC KEY-----", "sha256", "md5", "ed25519", "rsa", "ecdsa",
                             "MATCH", "IN", "WITH", "FROM", "layout", "link", "step"]
TOKENS_NUM = [0, -1, 1, 2 ** 31, 2 ** 32 - 1, 2 ** 32, 2 ** 63, 2 ** 64 - 1, 2 ** 64, -2 ** 63, -2 ** 63 - 1, 1.5, 1e308, -0.0]


def norm_msg(msg):
    """message class: digits abstracted, cut before any input-dependent detail"""
    m = re.sub(r"\d+", "N", msg)
    m = re.split(r"[:;(]", m, 1)[0]
    return m.strip()[:70]


def panic_sig(ep, p):
    f = p["loc"].rsplit(":", 1)[0]
    f = f.replace("/repo/", "")
    f = re.sub(r"^/root/\.cargo/registry/src/[^/]+/", "dep:", f)
    return f"panic:{f}:{norm_msg(p['msg'])}"


# ---- corpus --------------------------------------------------------------------------------


def flip(rng, b):
    if not b:
        return b
    b = bytearray(b)
    for _ in range(rng.choice([1, 1, 2, 8])):
        i = rng.randrange(len(b))
        b[i] ^= 1 << rng.randrange(8)
    return bytes(b)


def mutate_bytes(rng, b, others):
    k = rng.randrange(9)
    if k == 0:
        return flip(rng, b)
    if k == 1:
        return b[:rng.randrange(len(b) + 1)]
    if k == 2 and b:
        i = rng.randrange(len(b))
        return b[:i] + bytes([rng.choice([0, 0x7f, 0x80, 0x81, 0x82, 0x84, 0xff, 0x30, 0x03, 0x04, 0x05, 0x06])]) + b[i + 1:]
    if k == 3:
        o = rng.choice(others)
        return b[:rng.randrange(len(b) + 1)] + o[rng.randrange(len(o) + 1):]
    if k == 4 and b:
        i = rng.randrange(len(b))
        return b[:i] + b[i:i + rng.randrange(1, 40)] * rng.choice([2, 3, 50]) + b[i:]
    if k == 5:
        return b + bytes(rng.randrange(256) for _ in range(rng.randrange(1, 20)))
    if k == 6 and len(b) > 4:
        i, j = sorted(rng.sample(range(len(b)), 2))
        return b[:i] + b[j:]
    if k == 7 and b:
        i = rng.randrange(len(b))
        return b[:i] + bytes(rng.randrange(256) for _ in range(rng.randrange(1, 6))) + b[i:]
    return bytes(rng.randrange(256) for _ in range(rng.choice([0, 1, 2, 8, 31, 32, 33, 64, 65, 100, 300])))


def adversarial_json(rng, doc):
    """well-typed-but-adversarial: substitute leaves by dictionary tokens, duplicate / empty containers"""
    d = copy.deepcopy(doc)
    paths = [p for p in scen.leaf_paths(d) if p]
    for _ in range(rng.choice([1, 1, 2, 4])):
        if not paths:
            break
        p = rng.choice(paths)
        try:
            v = scen.get_at(d, p)
        except (KeyError, IndexError, TypeError):
            continue
        try:
            if isinstance(v, str):
                scen.set_at(d, p, rng.choice(TOKENS_STR))
            elif isinstance(v, bool) or v is None:
                scen.set_at(d, p, rng.choice([None, True, 0, "", [], {}]))
            elif isinstance(v, (int, float)):
                scen.set_at(d, p, rng.choice(TOKENS_NUM))
            elif isinstance(v, list):
                scen.set_at(d, p, rng.choice([[], v * 3, [v], v[:1] * 200, [rng.choice(TOKENS_STR)]]))
            elif isinstance(v, dict):
                if rng.random() < 0.5 and v:
                    k = rng.choice(sorted(v))
                    nk = rng.choice(TOKENS_STR)
                    v[nk] = v.pop(k)
                else:
                    scen.set_at(d, p, rng.choice([{}, {rng.choice(TOKENS_STR): v}]))
        except (KeyError, IndexError, TypeError):
            continue
    return d


def deep(n):
    return "[" * n + "]" * n


def json_text_mutation(rng, text):
    k = rng.randrange(6)
    if k == 0:
        return deep(rng.choice([100, 127, 128, 129, 200, 5000]))
    if k == 1:
        return '{"a":' * rng.choice([127, 129, 300]) + "1" + "}" * rng.choice([127, 129, 300])
    if k == 2:
        # duplicate members
        return text.replace("{", '{"_type":"link","name":1,', 1)
    if k == 3:
        i = rng.randrange(len(text) + 1)
        return text[:i] + rng.choice(['"', "\\", "\\u", "\\ud800", "\\udc00\\ud800", ",", "}", "]", "\x00", "1e999", "-", "tru"]) + text[i:]
    if k == 4:
        return text.encode().decode("latin1")[:rng.randrange(len(text) + 1)]
    return text + text


class Seeds:
    """valid documents per entry point, built once per shard"""

    def __init__(self, rng, W, binpath):
        self.json = {}
        # plain seed documents: the hostile content is put in afterwards by the mutators, the seeds themselves must be
        # documents every version of the library can represent
        docs = [docgen.rand_layout(rng, W, 0.0) for _ in range(6)] + [docgen.rand_link(rng, 0.0) for _ in range(6)]
        for d in docs:
            for fld in ("materials", "products"):
                if fld in d:
                    d[fld] = {k: v for k, v in d[fld].items() if k in ("foo", "bar", "src/a.c", "src/b.c", "dir/sub/x", "foo.tar.gz", "x/y/z")}
        wires = scen.sign_all(binpath, [(d, [rng.choice(common.FAST_KEYS)], "new") for d in docs], nproc=1)
        self.json["metablock"] = wires
        self.json["layout"] = [d for d in docs if d["_type"] == "layout"]
        self.json["link"] = [d for d in docs if d["_type"] == "link"]
        self.json["pubkey_json"] = [W.pub(k) for k in common.ALL_KEYS]
        self.json["signature_json"] = [w["signatures"][0] for w in wires if w["signatures"]]
        self.json["keyid_json"] = [W.kid("ed0"), "ab" * 32]
        self.json["rule_json"] = [docgen.rand_rule(rng) for _ in range(10)]
        self.json["step_json"] = [s for d in self.json["layout"] for s in d["steps"]] or [scen.mk_step("s")]
        self.json["inspection_json"] = [scen.mk_inspection("i", ["sh", "-c", "true"], [["ALLOW", "*"]], [])]
        self.json["statement_json"] = [attgen.gen_naive(rng), attgen.gen_v01(rng)[0], attgen.gen_v01(rng)[0]]
        self.json["predicate_json"] = [attgen.gen_predicate(rng)[1] for _ in range(4)]
        self.json["envelope"] = [{"payload": "e30=", "payload_type": "link", "signatures": [{"keyid": W.kid("ed0"), "sig": "ab" * 64}]}]
        self.json["canon"] = [docs[0], [1, "a", {"b": None}]]
        self.alias = {"metablock_str": "metablock", "wrapper_try": "layout", "wrapper_layout": "layout", "wrapper_link": "link",
                      "raw_builder": "link"}
        self.bin = {}
        spkis = [(common.KEYS / f).read_bytes() for f in ("ec-a.spki.der", "rsa-2048-a.spki.der", "rsa-4096-a.spki.der", "ed-ossl-a.spki.der")]
        spkis.append(bytes.fromhex("302c300706032b65700500032100") + bytes(32))
        pk8s = [(common.KEYS / f).read_bytes() for f in ("ec-a.pk8.der", "rsa-2048-a.pk8.der", "ed-ossl-a.pk8v1.der")]
        pk8s.append(c12.ed_pk8v2(bytes.fromhex(common._ed_seed(0)), bytes.fromhex(W.ki["ed0"]["raw"])))
        self.bin["spki"] = spkis
        self.bin["pem_spki"] = [c12.pem(s).encode() for s in spkis] + [c12.pem(spkis[0], crlf=True).encode(), b"-----BEGIN PUBLIC KEY-----\n"]
        self.bin["pk8"] = pk8s
        self.bin["ed_pub"] = [bytes.fromhex(W.ki["ed0"]["raw"])]
        self.bin["ecdsa_pub"] = [spkis[0][-65:]]
        self.bin["ed_keypair"] = [bytes.fromhex(common._ed_seed(0)) + bytes.fromhex(W.ki["ed0"]["raw"])]
        self.bin["sig_hex"] = [b"ab" * 64, b"zz", b"ABCD"]
        self.bin["keyid_str"] = [W.kid("ed0").encode()] + [s.encode() for s in NONASCII_IDS]
        self.bin["pae_unpack"] = [b"DSSEv1 4 link 2 {}", b"DSSEv1 0  0 "]
        self.bin["pae_try_unpack"] = self.bin["pae_unpack"]


JSON_EPS = ["metablock", "metablock_str", "layout", "link", "wrapper_try", "wrapper_layout", "wrapper_link", "raw_builder", "pubkey_json",
            "signature_json", "keyid_json", "rule_json", "step_json", "inspection_json", "statement_json", "predicate_json", "envelope",
            "canon"]
BIN_EPS = ["spki", "pem_spki", "pk8", "ed_pub", "ecdsa_pub", "ed_keypair", "sig_hex", "keyid_str", "pae_unpack", "pae_try_unpack"]


def gen_entry_cases(rng, seeds, n):
    cases = []
    allbin = [b for v in seeds.bin.values() for b in v]
    for i in range(n):
        if rng.random() < 0.6:
            ep = rng.choice(JSON_EPS)
            pool = seeds.json[seeds.alias.get(ep, ep)]
            doc = rng.choice(pool)
            k = rng.random()
            if k < 0.45:
                data = json.dumps(adversarial_json(rng, doc), ensure_ascii=False)
                cls = "adversarial_json"
            elif k < 0.6:
                data = json_text_mutation(rng, json.dumps(doc))
                cls = "json_text_mutation"
            elif k < 0.9:
                data = {"hex": mutate_bytes(rng, json.dumps(doc).encode(), allbin).hex()}
                cls = "byte_mutation"
            else:
                data = {"hex": bytes(rng.randrange(256) for _ in range(rng.randrange(0, 200))).hex()}
                cls = "random_bytes"
            if isinstance(data, str):
                try:
                    data.encode()
                except UnicodeEncodeError:
                    data = {"hex": data.encode("utf-8", "surrogatepass").hex()}
        else:
            ep = rng.choice(BIN_EPS)
            pool = seeds.bin[ep]
            b = rng.choice(pool)
            k = rng.random()
            if k < 0.75:
                data = {"hex": mutate_bytes(rng, b, allbin).hex()}
                cls = "byte_mutation"
            elif k < 0.9:
                data = {"hex": bytes(rng.randrange(256) for _ in range(rng.choice([0, 1, 31, 32, 33, 64, 65, 91, 294]))).hex()}
                cls = "random_bytes"
            else:
                data = {"hex": b.hex()}
                cls = "valid_seed"
            if ep in ("spki", "pem_spki", "pk8"):
                ep = ep + ":" + rng.choice(SCHEMES)
        cases.append({"op": "entry", "ep": ep, "data": data, "meta": {"cls": cls}})
    return cases


EXTREME_TIMES = ["2300-01-01T00:00:00.5Z", "9999-12-31T23:59:59.999999999Z", "0001-01-01T00:00:00.1Z", "1600-06-01T12:00:00.25+05:30",
                 "2262-04-11T23:47:16.854775807Z", "2262-04-11T23:47:16.854775808Z", "1677-09-21T00:12:43.145224192Z", "1677-09-21T00:12:43.1Z",
                 "9999-12-31T23:59:59Z", "0000-01-01T00:00:00Z", "9999-12-31T23:59:60.5Z", "2016-12-31T23:59:60.999Z", "1969-12-31T23:59:59.999999999Z",
                 "+10000-01-01T00:00:00Z", "-0001-01-01T00:00:00Z", "2038-01-19T03:14:08.000000001Z", "9999-12-31T23:59:59.9+14:00",
                 "0000-01-01T00:00:00.9-12:00", "2300-01-01T00:00:00,5Z", "2300-01-01T00:00:00.5"]


def _der(tag, body):
    n = len(body)
    if n < 0x80:
        ln = bytes([n])
    else:
        b = n.to_bytes((n.bit_length() + 7) // 8, "big")
        ln = bytes([0x80 | len(b)]) + b
    return bytes([tag]) + ln + body


def gen_wellformed_key_cases(seeds):
    """perfectly well-formed SubjectPublicKeyInfo documents whose *key* is degenerate: every algorithm identifier the importers
    know (and one they do not) x key BIT STRINGs that are empty, one byte, a point / modulus of the wrong size, with unused
    bits, ...  Through the DER and PEM importers under every scheme and through public-key JSON: a value or an error"""
    oid_rsa = bytes.fromhex("06092a864886f70d010101") + b"\x05\x00"
    oid_ec = bytes.fromhex("06072a8648ce3d0201") + bytes.fromhex("06082a8648ce3d030107")
    oid_ec_noparam = bytes.fromhex("06072a8648ce3d0201")
    oid_ec_p384 = bytes.fromhex("06072a8648ce3d0201") + bytes.fromhex("06052b81040022")
    oid_ed = bytes.fromhex("06032b6570")
    oid_x = bytes.fromhex("06032b6571")
    algs = {"rsa": oid_rsa, "ec": oid_ec, "ec_noparam": oid_ec_noparam, "ec_p384": oid_ec_p384, "ed": oid_ed, "other": oid_x, "empty": b""}
    rsa_int = lambda v: _der(0x02, v)
    keys = {
        "empty": b"", "one_04": b"\x04", "one_00": b"\x00", "p31": b"\x04" + bytes(31), "p32": bytes(32), "p33": b"\x02" + bytes(32),
        "p64": bytes(64), "p65_04": b"\x04" + bytes(64), "p65_00": bytes(65), "p66": b"\x04" + bytes(65), "p97": b"\x04" + bytes(96),
        "rsa_empty_seq": _der(0x30, b""), "rsa_empty_ints": _der(0x30, rsa_int(b"") + rsa_int(b"")),
        "rsa_zero": _der(0x30, rsa_int(b"\x00") + rsa_int(b"\x00")), "rsa_one_int": _der(0x30, rsa_int(b"\x01\x00\x01")),
        "rsa_small": _der(0x30, rsa_int(b"\x00\xc1" + bytes(62) + b"\x01") + rsa_int(b"\x01\x00\x01")),
        "rsa_neg": _der(0x30, rsa_int(b"\xff" * 256) + rsa_int(b"\x01\x00\x01")),
        "rsa_even": _der(0x30, rsa_int(b"\x00\xc0" + bytes(255)) + rsa_int(b"\x02")),
        "rsa_huge_e": _der(0x30, rsa_int(b"\x00\xc1" + bytes(254) + b"\x01") + rsa_int(b"\x01" + bytes(64))),
    }
    cases = []
    for an, alg in algs.items():
        for kn, key in keys.items():
            for unused in (0, 7):
                if unused and kn not in ("empty", "p65_04", "p32"):
                    continue
                for bit_body in ((bytes([unused]) + key), ) + ((b"",) if kn == "empty" and not unused else ()):
                    spki = _der(0x30, _der(0x30, alg) + _der(0x03, bit_body))
                    for sch in SCHEMES:
                        cases.append({"op": "entry", "ep": "spki:" + sch, "data": {"hex": spki.hex()}, "meta": {"cls": "wellformed_degenerate_key"}})
                    cases.append({"op": "entry", "ep": "pem_spki:" + SCHEMES[(len(cases)) % len(SCHEMES)], "data": {"hex": c12.pem(spki).encode().hex()},
                                  "meta": {"cls": "wellformed_degenerate_key"}})
                    for kt, sc in (("rsa", "rsassa-pss-sha256"), ("ecdsa", "ecdsa-sha2-nistp256"), ("ed25519", "ed25519")):
                        pj = {"keytype": kt, "scheme": sc, "keyid_hash_algorithms": ["sha256", "sha512"],
                              "keyval": {"public": c12.pem(spki), "private": ""}}
                        cases.append({"op": "entry", "ep": "pubkey_json", "data": json.dumps(pj), "meta": {"cls": "wellformed_degenerate_key"}})
                        if an in ("ec", "rsa") and kn in ("empty", "one_04", "rsa_empty_seq"):
                            lay = scen.mk_layout(None, keys={"ab" * 32: pj})
                            cases.append({"op": "entry", "ep": "metablock", "data": json.dumps({"signatures": [], "signed": lay}),
                                          "meta": {"cls": "wellformed_degenerate_key"}})
    # raw key importers with every short length
    for n in list(range(0, 70)) + [96, 97, 128]:
        for ep in ("ed_pub", "ecdsa_pub"):
            for first in (0x04, 0x00):
                cases.append({"op": "entry", "ep": ep, "data": {"hex": (bytes([first]) + bytes(max(0, n - 1)))[:n].hex()}, "meta": {"cls": "wellformed_degenerate_key"}})
    return cases


def gen_time_cases(rng, seeds):
    """every point in time the wire format can denote (years 0000-9999, fractions, leap seconds, offsets) and a few it cannot,
    as a layout's expiry and as build timestamps: a value or an error"""
    cases = []
    for t in EXTREME_TIMES:
        lay = copy.deepcopy(seeds.json["layout"][0] if seeds.json["layout"] else scen.mk_layout(None, keys={}))
        lay["expires"] = t
        for ep in ("layout", "wrapper_try", "wrapper_layout"):
            cases.append({"op": "entry", "ep": ep, "data": json.dumps(lay, ensure_ascii=False), "meta": {"cls": "extreme_time_stamp"}})
        mb = {"signatures": [], "signed": lay}
        for ep in ("metablock", "metablock_str"):
            cases.append({"op": "entry", "ep": ep, "data": json.dumps(mb, ensure_ascii=False), "meta": {"cls": "extreme_time_stamp"}})
        for st in seeds.json["statement_json"] + seeds.json["predicate_json"]:
            txt = json.dumps(st)
            if "buildStartedOn" in txt or "buildFinishedOn" in txt:
                d = json.loads(txt)

                def setts(o):
                    if isinstance(o, dict):
                        for k in list(o):
                            if k in ("buildStartedOn", "buildFinishedOn"):
                                o[k] = t
                            else:
                                setts(o[k])
                    elif isinstance(o, list):
                        for x in o:
                            setts(x)
                setts(d)
                cases.append({"op": "entry", "ep": "statement_json" if "_type" in d else "predicate_json", "data": json.dumps(d),
                              "meta": {"cls": "extreme_time_stamp"}})
    return cases


HOSTILE_PATHS = ["a/./b", "./a", "a//b", "a/../a", "/abs", "", ".", "..", "a/b/../../..", "é", "a" * 5000, "*", "[", "a/./b/./c",
                 "x/../x", "./x", "x", "/", "//", "/usr/..", "src/", "src", "src/x"]


def gen_rule_cases(rng, n):
    cases = []
    for i in range(n):
        names = rng.sample(HOSTILE_PATHS, rng.randrange(1, 6))
        mats = {p: scen.digest(rng.randrange(4)) for p in names if rng.random() < 0.7}
        prods = {p: scen.digest(rng.randrange(4)) for p in names if rng.random() < 0.7}
        links = {"item": scen.mk_link("item", mats, prods), "ref": scen.mk_link("ref", dict(prods), dict(mats))}

        def rule():
            r = docgen.rand_rule(rng, ("ref", "item", "ghost"), 0.5)
            if rng.random() < 0.5:
                r[1] = rng.choice(HOSTILE_PATHS + TOKENS_STR[:20])
            if r[0] == "MATCH" and rng.random() < 0.4:
                # prefixes that leave nothing (or something odd) of the path once stripped
                r = ["MATCH", rng.choice(["*", "", "x"]), "IN", rng.choice(["", "/", "src", "src/", "a/.", "."]), "WITH",
                     rng.choice(["MATERIALS", "PRODUCTS"])] + rng.choice([[], ["IN", rng.choice(["", "/", "dst"])]]) + ["FROM", rng.choice(["ref", "item"])]
            return r
        item = scen.mk_step("item", 1, [], [], [rule() for _ in range(rng.randrange(0, 4))], [rule() for _ in range(rng.randrange(0, 4))])
        cases.append({"op": "rules", "kind": "step", "item": item, "links": links, "meta": {"cls": "rules_adversarial"}})
    return cases


def gen_failing_rule_message_cases():
    """rules that FAIL over many artifacts with non-ASCII names: the failure is reported (however long the report gets and
    wherever a multi-byte character falls in it), not crashed on.  The ASCII padding shifts every character boundary
    through all residues."""
    cases = []
    for pad in range(0, 8):
        for ch in ("é", "€", "😀"):
            names = ["p" * pad + ch * (3 + j % 5) + f"-{j}" for j in range(60)]
            prods = {nm: scen.digest(j % 4) for j, nm in enumerate(names)}
            for rules in ([["DISALLOW", "*"]], [["REQUIRE", "not-there-" + ch * 200]], [["DISALLOW", "a**b" + ch * 300]],
                          [["ALLOW", "nothing"], ["DISALLOW", "p*"]], [["MATCH", "*", "WITH", "PRODUCTS", "FROM", "ghost-" + ch * 180], ["DISALLOW", "*"]]):
                item = scen.mk_step(ch * 90 + "-item", 1, [], [], [], rules)
                links = {ch * 90 + "-item": scen.mk_link(ch * 90 + "-item", {}, prods)}
                cases.append({"op": "rules", "kind": "step", "item": item, "links": links, "meta": {"cls": "failing_rule_with_long_non_ascii_report"}})
    return cases


def gen_dir_cases(rng, W, seeds, n):
    """final-product verification over link directories populated with hostile files, which are read
    and matched before any signature has been checked"""
    cases = []
    allbin = [b for v in seeds.bin.values() for b in v]
    for i in range(n):
        # step names are interpolated into a glob: names with metacharacters match files called differently
        stepname, filebase = rng.choice([("build", "build")] * 4 + [("a b", "a b"), ("é", "é"), ("st*p", "stop"), ("st*p", "st.x.p"), ("[abc", "[abc"),
                                        ("x/../y", "y"), ("build.00000000", "build.00000000"), ("[b][u][i][l][d]", "build"),
                                        ("b?ild", "béild"), ("*", "anything"), ("bu*", "build.x.y")])
        # the step's functionaries need not all be in the key table (never listed, or filed under a foreign id and dropped on reading)
        tm = rng.choice(["ok", "ok", "absent", "misfiled", "one_of_two"])
        auth = [W.kid("ed4")] + ([W.kid("ed5")] if tm == "one_of_two" or rng.random() < 0.3 else [])
        table = {"ok": {W.kid("ed4"): W.pub("ed4")}, "absent": {}, "misfiled": {"ab" * 32: W.pub("ed4")},
                 "one_of_two": {W.kid("ed4"): W.pub("ed4")}}[tm]
        layout = scen.mk_layout(W, [], [scen.mk_step(stepname, rng.choice([0, 1, 2]), auth, [], [["ALLOW", "*"]], [])],
                                [], None, "", keys=table)
        files = {}
        for j in range(rng.choice([1, 2, 3])):
            # the key-id part of the file name is matched by ???????? (8 *characters*, not bytes)
            pfx = rng.choice([W.pfx("ed4"), W.pfx("ed4"), W.pfx("ed5"), "00000000", "????????", "éééééééé", "abcdefgh", "€€€€€€€€", "0123456é", "é1234567", "😀😀😀😀😀😀😀😀",
                              "ab", "abcdefghi", "........", "a.b.c.d."])
            fname = f"{filebase}.{pfx}.link"
            if "/" in fname:
                fname = fname.replace("/", "_")
            w = copy.deepcopy(rng.choice(seeds.json["metablock"]))
            k = rng.random()
            if k < 0.35:
                if w["signatures"]:
                    w["signatures"][0]["keyid"] = rng.choice(NONASCII_IDS + [W.kid("ed4"), pfx + "0" * 56]) if rng.random() < 0.5 else \
                        (W.kid("ed5") if pfx == W.pfx("ed5") else W.kid("ed4"))
                else:
                    w["signatures"] = [{"keyid": W.kid("ed5") if pfx == W.pfx("ed5") else W.kid("ed4"), "sig": "00"}]
                files[fname] = json.dumps(w, ensure_ascii=False)
            elif k < 0.6:
                files[fname] = json.dumps(adversarial_json(rng, w), ensure_ascii=False)
            elif k < 0.8:
                files[fname] = {"hex": mutate_bytes(rng, json.dumps(w).encode(), allbin).hex()}
            elif k < 0.84:
                files[fname] = {"dir": True}
            elif k < 0.88:
                files[fname] = {"symlink": fname}
            else:
                # a "link file" that is not a regular file at all
                files[fname] = {"symlink": rng.choice(["/dev/zero", "/dev/zero", "/dev/urandom", "/dev/null", "/proc/self/environ", "/", "."])}
        cases.append({"op": "verify", "layout": None, "_layout_doc": layout, "caller_keys": [[W.kid("ed0"), W.pub("ed0")]], "files": files,
                      "work_files": {}, "step_name": None, "reps": 1, "meta": {"cls": "hostile_link_dir"}})
    return cases


def gen_signed_layout_cases(rng, W, seeds, n, binpath):
    """well-typed adversarial LAYOUTS that are properly signed by the trusted owner: whatever a layout can
    legitimately say (odd names, extreme thresholds, empty tables, hostile patterns) must not crash verification.
    Inspection commands are neutralised (empty or non-existent) so that no generated string is ever executed."""
    docs = []
    for i in range(n):
        base = copy.deepcopy(rng.choice(seeds.json["layout"]))
        d = adversarial_json(rng, base)
        if not isinstance(d, dict):
            continue
        d["_type"] = "layout"
        if not isinstance(d.get("expires"), str) or rng.random() < 0.8:
            d["expires"] = scen.future()
        for ins in d.get("inspect", []) if isinstance(d.get("inspect"), list) else []:
            if isinstance(ins, dict):
                ins["run"] = rng.choice([[], ["/nonexistent/itv-no-such-command"], ["/nonexistent/x", "a b"]])
        docs.append(d)
    so = common.run_batch(binpath, [{"op": "sign", "signed": d, "signers": ["ed0"], "via": "raw_builder"} for d in docs])
    cases = []
    for d, o in zip(docs, so):
        if "ok" not in o:
            continue      # the library refuses to represent this document: nothing to verify
        w = o["ok"]["wire"]
        files = {}
        steps = w["signed"].get("steps", [])
        for st in steps[:3]:
            nm = str(st.get("name", "x")).replace("/", "_").replace("\x00", "_")[:60] or "x"
            if nm in (".", ".."):
                nm = "dot"
            link = copy.deepcopy(rng.choice(seeds.json["metablock"]))
            files[f"{nm}.{W.pfx('ed4')}.link"] = json.dumps(link, ensure_ascii=False)
        cases.append({"op": "verify", "layout": json.dumps(w, ensure_ascii=False), "caller_keys": [[W.kid("ed0"), W.pub("ed0")]],
                      "files": files, "work_files": {}, "step_name": rng.choice([None, "x", "é"]), "reps": 1,
                      "meta": {"cls": "hostile_signed_layout"}})
    return cases


def gen_extreme_layout_cases(rng, W, binpath, shard_no, nshards):
    """properly signed, well-typed layouts at the corners of the value space: 1-3 steps, each with threshold 0 / 1 / u32::MAX,
    with or without rules and authorised keys, verified over a link directory that holds links for none / some / all of the
    steps, optionally asked for a summary name; plus a layout without steps"""
    import itertools
    combos = []
    for nsteps in (0, 1, 2, 3):
        per = list(itertools.product((0, 1, 2 ** 32 - 1), ("none", "allow"), (True, False)))
        for choice in itertools.product(per, repeat=nsteps):
            for present in ("none", "all", "first_only"):
                combos.append((choice, present))
    rng2 = __import__("random").Random(1234)
    rng2.shuffle(combos)
    combos = combos[shard_no::nshards][:60]
    reqs, plans = [], []
    for choice, present in combos:
        steps = []
        for i, (thr, rules, has_key) in enumerate(choice):
            r = [] if rules == "none" else [["ALLOW", "*"]]
            steps.append(scen.mk_step(f"s{i}", thr, [W.kid("ed4")] if has_key else [], [], r, r))
        layout = scen.mk_layout(W, ["ed4"], steps, [])
        plans.append((len(reqs), choice, present))
        reqs.append((layout, ["ed0"], "new"))
        for i in range(len(choice)):
            reqs.append((pipeline.leaf_link(f"s{i}", i), ["ed4"], "new"))
    wires = scen.sign_all(binpath, reqs, nproc=1)
    cases = []
    for b, choice, present in plans:
        files = {}
        for i in range(len(choice)):
            if present == "all" or (present == "first_only" and i == 0):
                files[f"s{i}.{W.pfx('ed4')}.link"] = scen.dumps(wires[b + 1 + i])
        cases.append({"op": "verify", "layout": scen.dumps(wires[b]), "caller_keys": [[W.kid("ed0"), W.pub("ed0")]],
                      "files": files, "work_files": {}, "step_name": rng.choice([None, "final"]), "reps": 1,
                      "meta": {"cls": "extreme_signed_layout"}})
    return cases


def gen_absolute_name_cases(rng, W, binpath, absdir):
    """a step whose name is an absolute path ending in a separator: joined to any directory it yields the same place, so a
    sub-layout filed there that is valid evidence for its own step is found again at every level - without any symbolic
    link.  `absdir` is a directory the caller created (and removes)."""
    import os
    cases = []
    for k in ("ed4", "ec-b"):
        name = absdir.rstrip("/") + f"/{k}/"
        os.makedirs(name, exist_ok=True)
        layout = scen.mk_layout(W, [k], [scen.mk_step(name, 1, [W.kid(k)], [], [["ALLOW", "*"]], [["ALLOW", "*"]])], [])
        w = scen.sign_all(binpath, [(layout, [k], "new")], nproc=1)[0]
        with open(os.path.join(name, f".{W.pfx(k)}.link"), "w") as f:
            f.write(scen.dumps(w))
        cases.append({"op": "verify", "layout": scen.dumps(w), "caller_keys": [[W.kid(k), W.pub(k)]], "files": {},
                      "work_files": {}, "step_name": None, "reps": 1, "call_timeout_s": 30,
                      "meta": {"cls": "self_similar_sublayout_under_absolute_step_name"}})
    return cases


def gen_self_similar_cases(rng, W, binpath):
    """a layout that is valid evidence for its own step (signed by the functionary it authorises), whose dedicated
    sub-directory is a symbolic link back to the link directory (planted without any key): verification must come back"""
    cases = []
    reqs = []
    ks = ["ed4", "edp2", "ec-b"]
    for k in ks:
        layout = scen.mk_layout(W, [k], [scen.mk_step("sub", 1, [W.kid(k)], [], [["ALLOW", "*"]], [["ALLOW", "*"]])], [])
        reqs.append((layout, [k], "new"))
    wires = scen.sign_all(binpath, reqs, nproc=1)
    for k, w in zip(ks, wires):
        d = f"sub.{W.pfx(k)}"
        for target in (".", "./", "../links", "loop", d):
            files = {f"{d}.link": scen.dumps(w), d: {"symlink": target}}
            if target == "loop":
                files["loop"] = {"symlink": "."}
            cases.append({"op": "verify", "layout": scen.dumps(w), "caller_keys": [[W.kid(k), W.pub(k)]], "files": files,
                          "work_files": {}, "step_name": None, "reps": 1, "meta": {"cls": "self_similar_sublayout_directory_loop"}})
    return cases


def gen_inspection_tree_cases(rng, W, binpath, n):
    """a valid layout with one inspection, verified in a working directory that contains things other than regular
    files (symlinks to devices / directories / themselves, deep nesting): recording the inspection's artifacts must
    terminate"""
    reqs = []
    for i in range(n):
        node = pipeline.make_node(rng, W, 0, ["ed0"], nsteps=1)
        # the inspection may be quiet or talk a lot, on either or both of its output streams (what it says depends on the
        # product it inspects)
        talk = rng.choice(["true", "true", "head -c 300000 /dev/zero | tr '\\000' e >&2", "head -c 300000 /dev/zero | tr '\\000' o",
                           "(head -c 200000 /dev/zero | tr '\\000' e >&2) & head -c 200000 /dev/zero | tr '\\000' o; wait",
                           "i=0; while [ $i -lt 3000 ]; do echo line-$i-on-stderr-with-some-more-text-to-fill-the-pipe-buffer-sooner >&2; i=$((i+1)); done"])
        node["layout"]["inspect"] = [scen.mk_inspection("look", ["sh", "-c", talk], [["ALLOW", "*"]], [["ALLOW", "*"]])]
        pipeline.collect_requests(node, reqs)
        reqs[-1]  # noqa
    wires = scen.sign_all(binpath, reqs, nproc=1)
    cases = []
    i = 0
    for k in range(n):
        # requests are [layout, link] per node (one step, one link)
        lw, link = wires[i], wires[i + 1]
        i += 2
        step = lw["signed"]["steps"][0]["name"]
        signer = link["signatures"][0]["keyid"][:8]
        work = {"plain.txt": "x"}
        for j in range(rng.choice([1, 2, 3])):
            work[f"d{j}/special{j}"] = {"symlink": rng.choice(["/dev/zero", "/dev/urandom", "/dev/null", "/dev/full", ".", "..", "special%d" % j,
                                                                 "/proc/self/fd/0", "/nonexistent/target", "../plain.txt"])}
        if k % 4 == 1:
            # the product directory is not under the verifier's control: where the inspection's link file is to be written
            # there may already be something, and it need not be a regular file
            work["look.link"] = rng.choice([{"fifo": True}, {"symlink": "/dev/full"}, {"dir": True}, {"symlink": "look.link"}, {"symlink": "/nonexistent/x"}])
        cases.append({"op": "verify", "layout": json.dumps(lw), "caller_keys": [[W.kid("ed0"), W.pub("ed0")]],
                      "files": {f"{step}.{signer}.link": json.dumps(link)}, "work_files": work, "step_name": None, "reps": 1,
                      "call_timeout_s": 30,
                      "meta": {"cls": "inspection_over_special_files"}})
    return cases


def gen_large_cases(rng, seeds):
    """a few large-but-bounded inputs (<= ~1 MB) for the CPU-time monitor"""
    cases = []
    big_rules = [["ALLOW", "*"]] * 20000
    st = scen.mk_step("s", 1, [], [], big_rules, [])
    cases.append({"op": "entry", "ep": "step_json", "data": json.dumps(st), "meta": {"cls": "large"}})
    arts = {f"dir{i // 100}/file{i}": scen.digest(i % 250) for i in range(6000)}
    link = scen.mk_link("item", arts, dict(arts))
    cases.append({"op": "entry", "ep": "link", "data": json.dumps(link), "meta": {"cls": "large"}})
    item = scen.mk_step("item", 1, [], [], [["MATCH", "*", "WITH", "PRODUCTS", "FROM", "ref"], ["MODIFY", "*"], ["DISALLOW", "nomatch"]] * 20,
                        [["CREATE", "dir1*"], ["ALLOW", "*"]])
    cases.append({"op": "rules", "kind": "step", "item": item, "links": {"item": link, "ref": scen.mk_link("ref", {}, dict(arts))},
                  "meta": {"cls": "large"}})
    cases.append({"op": "entry", "ep": "canon", "data": json.dumps({"k%d" % i: ["v" * 50, i] for i in range(20000)}), "meta": {"cls": "large"}})
    cases.append({"op": "entry", "ep": "pae_unpack", "data": {"hex": (b"DSSEv1 4 link 900000 " + b"x" * 900000).hex()}, "meta": {"cls": "large"}})
    cases.append({"op": "entry", "ep": "metablock", "data": json.dumps({"signatures": [{"keyid": "ab" * 32, "sig": "cd" * 64}] * 5000, "signed": link}),
                  "meta": {"cls": "large"}})
    return cases


# ---- judging ---------------------------------------------------------------------------------


def judge(case, obs, res):
    op = case["op"]
    ep = case.get("ep", op)
    if "crash" in obs or "watchdog" in obs or "missing" in obs:
        return "supervisor"
    if op == "entry":
        if "harness_error" in obs:
            res.inconclusive.append(f"harness error: {obs['harness_error']}")
            return None
        if obs.get("r") == "panic":
            res.violate(f"{ep.split(':')[0]}:{panic_sig(ep, obs['panic'])}", f"entry point {ep} panicked at {obs['panic']['loc']}: {obs['panic']['msg'][:200]}",
                        case, obs, "value or error")
            return "panic"
        return obs.get("r")
    if op == "rules":
        if obs.get("r") == "panic":
            res.violate(f"rules:{panic_sig('rules', obs['panic'])}", f"rule application panicked at {obs['panic']['loc']}: {obs['panic']['msg'][:200]}",
                        case, obs, "ok or error")
            return "panic"
        return obs.get("r")
    if op == "verify":
        if "runs" not in obs:
            res.inconclusive.append(f"verify op failed: {str(obs)[:200]}")
            return None
        r = obs["runs"][0]
        if r["v"] == "err" and "OutOfMemory" in str(r.get("e", "")):
            # the call only came back because it exhausted the supervisor's address-space budget while reading an input
            # of a few bytes (a symbolic link): without the budget it would not terminate
            res.violate("in_toto_verify:unbounded-read-until-memory-exhausted",
                        f"final-product verification read without bound until the address-space limit was hit ({r['e']}); "
                        f"files: { {k: v for k, v in case['files'].items() if isinstance(v, dict)} }", case, obs, "error without reading the device")
            return "resource"
        if r["v"] == "panic":
            res.violate(f"in_toto_verify:{panic_sig('verify', r['panic'])}", f"final-product verification panicked at {r['panic']['loc']}: {r['panic']['msg'][:200]}",
                        case, obs, "ok or error")
            return "panic"
        return r["v"]
    return None


def isolate(binpath, case, obs, res, env=None, runner=None):
    """a shard died / ran out of CPU on this case: reproduce it alone with a 20 s CPU limit"""
    o2 = common.run_batch(binpath, [case], cpu_s=20 if not runner else 600, wall_s=900, env=env, runner=runner,
                          as_bytes=0 if (env or runner) else 8 << 30)[0]
    ep = case.get("ep", case["op"])
    if "crash" in o2 and o2["crash"].get("rc") == 101 and o2["crash"].get("signal") is None:
        # exit status 101 without a signal is a Rust panic that unwound out of main: every library call is inside
        # catch_unwind, so this is the harness's own `expect` (e.g. a file it could not materialise), not the library
        res.inconclusive.append(f"harness panic while materialising a case for {ep}: {o2['crash'].get('log_tail', '')[-200:]}")
        return "harness"
    if "crash" in o2:
        sig = o2["crash"].get("signal")
        kind = "hang(cpu-limit)" if sig in (24, 9) else f"abort(signal {sig})"
        if o2["crash"].get("rc") == 97 and "ITV-NO-RETURN" in o2["crash"].get("log_tail", ""):
            kind = "blocked-forever"
        tail = o2["crash"].get("log_tail", "")
        if "stack overflow" in tail:
            kind = "stack-overflow"
        if "AddressSanitizer" in tail:
            m = re.search(r"AddressSanitizer: ([a-z-]+)", tail)
            kind = "asan:" + (m.group(1) if m else "report")
        res.violate(f"{ep.split(':')[0]}:{kind}", f"entry point {ep} killed the process ({kind}), reproduced in isolation: {tail[-300:]}", case, o2, "value or error")
        return kind
    if "watchdog" in o2:
        res.inconclusive.append(f"wall-clock watchdog fired on {ep} in isolation (inconclusive)")
        return "watchdog"
    res.classes["shard_death_not_reproduced_in_isolation"] += 1
    return "not_reproduced"


def shard(binpath, seed, sh, n, env=None, runner=None, tag="native"):
    rng = common.rng_for(seed, PROP, sh)
    W = scen.World(common.HARNESS / "target" / "release" / "itv")
    res = common.Result()
    seeds = Seeds(rng, W, common.HARNESS / "target" / "release" / "itv")
    cases = gen_entry_cases(rng, seeds, n) + gen_rule_cases(rng, max(20, n // 20))
    dirs = gen_dir_cases(rng, W, seeds, max(20, n // 20))
    lw = scen.sign_all(common.HARNESS / "target" / "release" / "itv", [(c["_layout_doc"], ["ed0"], "new") for c in dirs], nproc=1)
    for c, w in zip(dirs, lw):
        c["layout"] = scen.dumps(w)
        del c["_layout_doc"]
    cases += dirs
    cases += gen_signed_layout_cases(rng, W, seeds, max(20, n // 20), common.HARNESS / "target" / "release" / "itv")
    cases += gen_extreme_layout_cases(rng, W, common.HARNESS / "target" / "release" / "itv", sh, common.NPROC)
    if sh in (2, 3):
        cases += gen_time_cases(rng, seeds)
        cases += gen_wellformed_key_cases(seeds)
    if sh == 5:
        cases += gen_failing_rule_message_cases()
    absdir = None
    if sh == 4:
        import tempfile
        absdir = tempfile.mkdtemp(prefix="itv-abs-", dir="/dev/shm" if os.path.isdir("/dev/shm") else str(common.scratch_dir()))
        cases += gen_absolute_name_cases(rng, W, common.HARNESS / "target" / "release" / "itv", absdir)
    if sh in (0, 1):
        cases += gen_self_similar_cases(rng, W, common.HARNESS / "target" / "release" / "itv")
    if sh == 0 and not runner:
        cases += gen_large_cases(rng, seeds)
    cases += gen_inspection_tree_cases(rng, W, common.HARNESS / "target" / "release" / "itv", max(12, n // 150))
    # sanitizer / valgrind runs reserve huge virtual ranges: no address-space limit there
    obs = common.run_batch(binpath, cases, cpu_s=300 if not runner else 3000, wall_s=1500 if not runner else 3400, env=env, runner=runner,
                           as_bytes=0 if (env or runner) else 3 << 30)
    for c, o in zip(cases, obs):
        r = judge(c, o, res)
        if r == "supervisor":
            if "watchdog" in o:
                res.inconclusive.append("wall-clock watchdog fired (inconclusive)")
                continue
            if "missing" in o:
                continue
            r = isolate(binpath, c, o, res, env, runner)
        if r is None:
            continue
        ep = c.get("ep", c["op"]).split(":")[0]
        cls = [f"ep:{ep}:{r}", f"input:{c['meta']['cls']}", f"build:{tag}"]
        if o.get("log_records"):
            # the executor's logger admits every level and formats every record on the data under test
            cls.append("library_log_statements_formatted")
            res.extras["library_log_records_formatted"] = res.extras.get("library_log_records_formatted", 0) + o["log_records"]
        res.note([c.get("ep"), c.get("data"), c.get("item"), c.get("files")], r in ("ok", "err", "panic", "parse_err"), cls=cls)
    if absdir:
        shutil.rmtree(absdir, ignore_errors=True)
    if sh == 0:
        for c, o in list(zip(cases, obs))[:3]:
            res.sample({"entry_point": c.get("ep"), "input_class": c["meta"]["cls"], "data": str(c.get("data"))[:200], "outcome": o.get("r")})
    return res


# ---- sanitizer passes (thorough) -----------------------------------------------------------


def cargo(args, env_extra, cwd=common.HARNESS, timeout=1800):
    env = dict(os.environ, CARGO_NET_OFFLINE="true", **env_extra)
    p = subprocess.run(["cargo"] + args, cwd=cwd, env=env, stdout=subprocess.PIPE, stderr=subprocess.STDOUT, text=True, timeout=timeout)
    return p.returncode, p.stdout


def asan_pass(ctx, res, n):
    rc, out = cargo(["+nightly", "build", "--offline", "--release", "--target", "x86_64-unknown-linux-gnu", "--target-dir", "target-asan"],
                    {"RUSTFLAGS": "-Zsanitizer=address -Cforce-frame-pointers=yes"})
    binp = common.HARNESS / "target-asan" / "x86_64-unknown-linux-gnu" / "release" / "itv"
    if rc != 0 or not binp.exists():
        res.extras["asan"] = "unavailable: " + out[-300:]
        res.classes["asan_unavailable"] += 1
        return
    env = dict(os.environ, ASAN_OPTIONS="halt_on_error=1:abort_on_error=1:detect_leaks=0")
    parts = common.pmap(shard, [(binp, ctx.seed + 1000, s, n, env, None, "asan") for s in range(common.NPROC)])
    for p in parts:
        res.merge(p)
    res.extras["asan"] = "corpus replayed under -Zsanitizer=address (Rust code instrumented, ring's C/asm not)"


def plain_pass(ctx, res, n):
    rc, out = cargo(["build", "--offline", "--profile", "plain"], {})
    binp = common.HARNESS / "target" / "plain" / "itv"
    if rc != 0:
        res.extras["plain"] = "unavailable: " + out[-300:]
        return
    for p in common.pmap(shard, [(binp, ctx.seed + 2000, s, n, None, None, "plain-release") for s in range(common.NPROC)]):
        res.merge(p)


def valgrind_pass(ctx, res, n):
    if shutil.which("valgrind") is None:
        res.classes["valgrind_unavailable"] += 1
        return
    runner = ["valgrind", "--quiet", "--error-exitcode=97", "--errors-for-leak-kinds=none", "--leak-check=no"]
    p = shard(ctx.bin, ctx.seed + 3000, 0, n, None, runner, "valgrind")
    res.merge(p)
    res.extras["valgrind"] = f"{n} entry-point inputs + rule/dir cases under memcheck (error-exitcode=97 => process death => reported)"



def miri_shard(cases, tag):
    """run cases under Miri in one process, restarting after an 'unsupported operation' abort"""
    sd = common.scratch_dir()
    cin, cout = sd / f"miri{tag}.in", sd / f"miri{tag}.out"
    with open(cin, "w") as f:
        for c in cases:
            f.write(json.dumps(c, ensure_ascii=False) + "\n")
    open(cout, "w").close()
    obs, start, ub, unsupported = {}, 0, None, []
    for attempt in range(12):
        rc, out = cargo(["+nightly", "miri", "run", "--offline", "--target-dir", "target-miri", "--", str(cin), str(cout), str(sd / f"miri{tag}.d"), str(start)],
                        {"MIRIFLAGS": "-Zmiri-disable-isolation"}, timeout=3000)
        begun, ended = None, False
        for line in open(cout, errors="replace"):
            try:
                o = json.loads(line)
            except ValueError:
                continue
            if "idx" in o:
                obs[o["idx"]] = o
            elif "begin" in o:
                begun = o["begin"]
            elif "end" in o:
                ended = True
        if ended or begun is None:
            break
        if "Undefined Behavior" in out:
            ub = (begun, out[-1500:])
            break
        unsupported.append((cases[begun].get("ep", cases[begun]["op"]), out[-200:]))
        start = begun + 1
        open(cout, "w").close()
    return obs, ub, unsupported


MIRI_EPS = ["canon", "keyid_json", "keyid_str", "rule_json", "step_json", "inspection_json", "link", "pae_unpack", "pae_try_unpack",
            "sig_hex", "signature_json", "envelope", "statement_json", "predicate_json", "wrapper_link"]


def miri_pass(ctx, res, n):
    """pure-Rust entry points under Miri (it cannot cross ring's FFI: nothing that computes a key id, hashes or verifies)"""
    rng = ctx.rng(4000)
    W = scen.World(ctx.bin)
    seeds = Seeds(rng, W, ctx.bin)
    cases = [c for c in gen_entry_cases(rng, seeds, n * 8) if c["ep"].split(":")[0] in MIRI_EPS][:n]
    cases += gen_rule_cases(rng, 40)
    t = time.time()
    # build once, then 8 single-threaded interpreters in parallel
    cargo(["+nightly", "miri", "run", "--offline", "--target-dir", "target-miri", "--", "/dev/null", "/dev/null", str(common.scratch_dir() / "m0")],
          {"MIRIFLAGS": "-Zmiri-disable-isolation"}, timeout=3000)
    k = 8
    parts = common.pmap(miri_shard, [(cases[i::k], i) for i in range(k)], nproc=k)
    done = 0
    unsup = []
    for i, (obs, ub, unsupported) in enumerate(parts):
        sub = cases[i::k]
        unsup += [u[0] for u in unsupported]
        if ub:
            res.violate("miri:undefined-behaviour", "Miri reported undefined behaviour: " + ub[1][-600:], sub[ub[0]], {"log": ub[1]}, "no UB")
        for j, o in obs.items():
            r = judge(sub[j], o, res)
            done += 1
            res.note(["miri", sub[j].get("ep"), sub[j].get("data"), sub[j].get("item")], True,
                     cls=["build:miri", f"miri:{sub[j].get('ep', 'rules').split(':')[0]}:{r}"])
    res.extras["miri"] = {"cases": len(cases), "completed": done, "unsupported_operations_skipped": sorted(set(unsup)),
                          "wall_s": round(time.time() - t, 1)}


def fuzz_pass(ctx, res, secs):
    fd = common.HARNESS / "fuzz"
    if not (fd / "Cargo.toml").exists():
        return
    if not (fd / "Cargo.lock").exists():
        shutil.copy(common.REPO / "Cargo.lock", fd / "Cargo.lock")
    targets = ["fuzz_metablock", "fuzz_keys", "fuzz_pae", "fuzz_rules"]
    done = {}
    # seed corpora from valid documents (the corpus directories are scratch, not committed)
    rng = ctx.rng(5000)
    W = scen.World(ctx.bin)
    seeds = Seeds(rng, W, ctx.bin)
    seedfiles = {"fuzz_metablock": [json.dumps(w).encode() for w in seeds.json["metablock"]] +
                                   [json.dumps(adversarial_json(rng, w), ensure_ascii=False).encode() for w in seeds.json["metablock"] for _ in range(5)],
                 "fuzz_keys": [bytes([i % 4]) + b for i, b in enumerate(seeds.bin["spki"] + seeds.bin["pem_spki"] + seeds.bin["pk8"])] +
                              [b"\x00" + json.dumps(p).encode() for p in seeds.json["pubkey_json"]],
                 "fuzz_pae": seeds.bin["pae_unpack"] + [json.dumps(e).encode() for e in seeds.json["envelope"]],
                 "fuzz_rules": [json.dumps({"item": c["item"], "links": c["links"]}).encode() for c in gen_rule_cases(rng, 40)]}
    for t, files in seedfiles.items():
        cd = fd / "corpus" / t
        cd.mkdir(parents=True, exist_ok=True)
        for i, b in enumerate(files):
            (cd / f"seed{i}").write_bytes(b)
    for t in targets:
        art = fd / "artifacts" / t
        shutil.rmtree(art, ignore_errors=True)
        rc, out = cargo(["+nightly", "fuzz", "run", t, "--", f"-max_total_time={secs}", "-timeout=10", f"-seed={ctx.seed + 1}",
                         "-fork=8", "-ignore_crashes=0", "-rss_limit_mb=4096", "-print_final_stats=1"], {}, cwd=fd, timeout=secs * 4 + 1200)
        m = re.findall(r"^#(\d+): cov:", out, re.M)
        cov = re.findall(r"cov: (\d+)", out)
        execs = max(int(x) for x in m) if m else 0
        done[t] = {"rc": rc, "executions": execs, "max_cov": max(map(int, cov)) if cov else None}
        crashes = sorted(art.glob("crash-*")) + sorted(art.glob("timeout-*")) + sorted(art.glob("oom-*")) if art.exists() else []
        if "error: could not compile" in out or ("failed to" in out and execs == 0 and not crashes):
            res.extras.setdefault("fuzz_unavailable", []).append(t + ": " + out[-300:])
            continue
        res.evaluations += execs
        res.classes[f"fuzz:{t}:executions"] += execs
        for c in crashes[:5]:
            data = c.read_bytes()
            site = re.search(r"panicked at ([^\n]+)", out)
            kind = c.name.split("-")[0]
            res.violate(f"fuzz:{t}:{kind}:{norm_msg(site.group(1)) if site else ''}",
                        f"libFuzzer target {t} found a {kind}: {site.group(1) if site else out[-300:]}",
                        {"op": "fuzz", "target": t, "data": {"hex": data.hex()}, "meta": {"cls": "fuzz"}}, {"log": out[-1200:]}, "no crash")
    res.extras["fuzz"] = done


def replay(ctx, case, res):
    if case.get("op") == "fuzz":
        print("[C14] libFuzzer artifact: run `cargo +nightly fuzz run %s <file>` in harness/fuzz with the hex-decoded data" % case["target"])
        return
    o = common.run_batch(ctx.bin, [case], cpu_s=20)[0]
    r = judge(case, o, res)
    if r == "supervisor":
        isolate(ctx.bin, case, o, res)


def main(ctx):
    res = common.Result()
    n = 3500 if not ctx.thorough else 60000
    for p in common.pmap(shard, [(ctx.bin, ctx.seed, s, n) for s in range(common.NPROC)]):
        res.merge(p)
    if ctx.thorough:
        plain_pass(ctx, res, 15000)
        asan_pass(ctx, res, 15000)
        valgrind_pass(ctx, res, 250)
        miri_pass(ctx, res, 300)
        fuzz_pass(ctx, res, 120)
    req = [f"ep:{e}:err" for e in ("metablock", "layout", "link", "pubkey_json", "spki", "pem_spki", "pk8", "pae_unpack", "keyid_str", "rule_json",
                                    "statement_json", "predicate_json", "envelope")] + \
          ["ep:metablock:ok", "ep:pubkey_json:ok", "ep:spki:ok", "ep:pk8:ok", "ep:rules:ok", "ep:verify:err", "input:adversarial_json", "input:wellformed_degenerate_key",
           "input:byte_mutation", "input:random_bytes", "input:hostile_link_dir", "input:rules_adversarial", "input:hostile_signed_layout",
           "input:large", "input:inspection_over_special_files", "input:extreme_signed_layout", "input:self_similar_sublayout_directory_loop", "input:self_similar_sublayout_under_absolute_step_name", "input:extreme_time_stamp", "input:failing_rule_with_long_non_ascii_report", "library_log_statements_formatted"]
    return common.finish(
        PROP, ctx.tier, ctx.seed, res, t0=ctx.t0,
        rule="28 entry points (JSON decoders of every public type through slice/str, metadata wrappers, raw builder, key importers "
             "DER/PEM/raw/PKCS#8 per scheme, hex/key-id parsers, PAE decoders, canonicaliser) + rule application + final-product "
             "verification over hostile link directories; inputs: random bytes, byte-level mutations (flips, truncation, splices, DER "
             "length/tag edits, repetition), JSON text mutations (depth 100-5000, duplicate members, broken escapes), well-typed "
             "adversarial documents (non-ASCII 64-byte ids, empty/huge strings, non-normalised paths, glob metacharacters, extreme "
             "numbers, empty/duplicated collections); non-trivial = the entry point returned or panicked in-process; distinct by input",
        assumptions=["a panic caught by catch_unwind, a process death or a CPU-limit kill reproduced in isolation are the crash events; "
                     "wall-clock watchdogs are inconclusive", "ring's C/asm is not instrumented by ASan; Miri cannot enter it"],
        required=req, min_evals=20000)
