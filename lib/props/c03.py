"""C03 — artifact rules are enforced exactly as the in-toto specification prescribes.

Monitor: the per-item rule application (guarded re-export) and, for a sample, the whole
verification pipeline (rules on steps and on inspections) are compared two-sidedly with an
executable reference model (lib/rulemodel.py).  A complete small scope is enumerated in the
thorough tier.
"""
import hashlib
import itertools
import json

import common
import pipeline
import rulemodel
import scen

PROP = "C03"
NAMES = ["foo", "bar", "src/a.c", "src/b.c", "out/x", "a/b/c", "README", ".hidden", "pkg/foo", "dst/foo", "dst/src/a.c",
         # siblings that share a prefix *string* with a directory used as IN prefix, and what is left when it is cut off
         "srcfoo", "src2/a.c", "2/a.c", "outx", "a/bc", "dstfoo",
         # the same names in another letter case (matching is case-sensitive)
         "Foo", "readme", "SRC/a.c", "src/A.C",
         # a directory named like its parent
         "src/src/a.c", "dst/dst/foo", "out/out/x",
         # a backslash is an ordinary character of a name, not a separator
         "src\\a.c", "dst\\foo", "a\\b\\c", "out\\x"]
PATTERNS = ["*", "foo", "*.c", "src/*", "?ar", "[fb]*", "[!f]*", "[a-c]*", "a/b/*", "out/*", "nomatch", "src/a.c",
            "*o*", "dst/*", "pkg/*", "a.c", "b.c", "x", "c", "FOO", "readme", "README", "*.C", "SRC/*", "[F]*", "Src/*",
            # character classes without any * or ?
            "[fb]oo", "ba[rz]", "src/[ab].c", "[!f]oo", "README[0-9]", "[rR]eadme", "ou[t]/x"]
PREFIXES = ["src", "out", "a/b", "dst", "pkg", "dst/src"]   # normalised: no trailing slash
BAD = ["a**b", "[a", "**x", "x**", "[!", "a[", "***", "[]"]
SIMPLE = ["CREATE", "DELETE", "MODIFY", "ALLOW", "REQUIRE", "DISALLOW"]
STATES = ["absent", "material", "product", "unchanged", "modified", "modified_to_prefix", "modified_from_prefix"]
CONTENT = {t: f"content-{t}\n" for t in range(8)}


def dg(tag):
    return {"sha256": hashlib.sha256(CONTENT[tag].encode()).hexdigest()}


def dg2(tag, tag512):
    """two digests; descriptions are equal only if both agree"""
    return {"sha256": hashlib.sha256(CONTENT[tag].encode()).hexdigest(), "sha512": hashlib.sha512(CONTENT[tag512].encode()).hexdigest()}


def rand_rule(rng, refs, allow_bad=True):
    k = rng.randrange(9)
    if k < 6:
        kind = SIMPLE[k]
        if kind == "DISALLOW" and allow_bad and rng.random() < 0.12:
            return [kind, rng.choice(BAD)]
        if kind == "REQUIRE":
            return [kind, rng.choice(NAMES + PATTERNS[:4])]
        return [kind, rng.choice(PATTERNS)]
    r = ["MATCH", rng.choice(PATTERNS)]
    if rng.random() < 0.45:
        r += ["IN", rng.choice(PREFIXES)]
    r += ["WITH", rng.choice(["MATERIALS", "PRODUCTS"])]
    if rng.random() < 0.45:
        r += ["IN", rng.choice(PREFIXES)]
    r += ["FROM", rng.choice(refs + ["ghost"])]
    return r


def link_from_states(name, states):
    mats, prods = {}, {}
    for n, st in states.items():
        if st == "material":
            mats[n] = dg(1)
        elif st == "product":
            prods[n] = dg(2)
        elif st == "unchanged":
            mats[n] = dg(3)
            prods[n] = dg(3)
        elif st == "modified":
            mats[n] = dg(4)
            prods[n] = dg(5)
        elif st in ("modified_to_prefix", "modified_from_prefix"):
            # one digest is the beginning of the other (an abbreviated digest): different digests, a modified artifact
            full, short = dg(4), {k: v[:16] for k, v in dg(4).items()}
            mats[n], prods[n] = (full, short) if st == "modified_to_prefix" else (short, full)
    return scen.mk_link(name, mats, prods, [], {}, None)


def near_variants(p):
    """paths a (correct or sloppy) prefix handling could turn p into: cut a directory prefix, cut the same
    characters as a plain string, keep a leading slash, add a destination prefix with or without separator"""
    out = {p}
    for pre in PREFIXES:
        if p.startswith(pre + "/"):
            out.add(p[len(pre) + 1:])
            out.add(p[len(pre):])
        elif p.startswith(pre):
            out.add(p[len(pre):])
        out.add(pre + "/" + p)
        out.add(pre + p)
        # a directory named like the prefix directly below the prefix (the prefix is to be taken off once)
        out.add(pre + "/" + pre + "/" + p)
        if p.startswith(pre + "/"):
            out.add(pre + "/" + p)
    return sorted(x for x in out if x and not x.startswith("/"))


def rand_case(rng):
    names = rng.sample(NAMES, rng.randrange(0, 7))
    states = {n: rng.choice(STATES) for n in names}
    item_link = link_from_states("item", states)
    refs = ["ref0", "ref1"][:rng.randrange(0, 3)]
    links = {"item": item_link}
    derived = rng.random() < 0.6
    for r in refs:
        if rng.random() < 0.15:
            continue     # referenced step without a link
        m, p = {}, {}
        if derived:
            # the referenced step exposes near-variants of the item's own artifacts, mostly with equal digests:
            # every way of getting the prefix arithmetic slightly wrong then changes what MATCH consumes
            for src in (item_link["materials"], item_link["products"]):
                for path, d in src.items():
                    for v in rng.sample(near_variants(path), min(3, len(near_variants(path)))):
                        tgt = rng.choice([m, p])
                        r_ = rng.random()
                        if r_ < 0.7:
                            tgt[v] = d
                        elif r_ < 0.8:
                            tgt[v] = dg(6)
                        elif r_ < 0.87:
                            # the beginning of the item's digest / an empty digest: unequal descriptions
                            tgt[v] = {k: x[:rng.choice([0, 8, 32])] for k, x in d.items()}
                        else:
                            # agrees on the algorithm(s) the item recorded, but carries a further one (unequal descriptions)
                            tgt[v] = dict(d, sha512=hashlib.sha512(b"other").hexdigest())
        else:
            for n in rng.sample(NAMES, rng.randrange(0, 6)):
                tgt = rng.choice([m, p])
                tgt[n] = dg(rng.choice([1, 2, 3, 4, 5, 6]))
        links[r] = scen.mk_link(r, m, p, [], {}, None)

    def rules():
        rl = [rand_rule(rng, refs) for _ in range(rng.randrange(0, 6))]
        if derived and refs and rng.random() < 0.7:
            # a MATCH followed by a rule that notices what was (not) consumed
            mr = ["MATCH", rng.choice(["*", "*", "*.c", "foo", "*o*", "a.c", "?/*"])]
            if rng.random() < 0.6:
                mr += ["IN", rng.choice(PREFIXES)]
            mr += ["WITH", rng.choice(["MATERIALS", "PRODUCTS"])]
            if rng.random() < 0.4:
                mr += ["IN", rng.choice(PREFIXES)]
            mr += ["FROM", rng.choice(refs)]
            tail = rng.choice([[["DISALLOW", "*"]], [["DISALLOW", rng.choice(PATTERNS)]], [["REQUIRE", rng.choice(names)]] if names else [], []])
            rl = rl[:2] + [mr] + tail
        return rl
    mr, pr = rules(), rules()
    kind = rng.choice(["step", "step", "inspection"])
    if kind == "step":
        item = scen.mk_step("item", 1, [], [], mr, pr)
    else:
        item = scen.mk_inspection("item", [], mr, pr)
    return kind, item, links


def disallow_patterns(item):
    return [r[1] for r in item["expected_materials"] + item["expected_products"] if r[0] == "DISALLOW"]


def to_case(kind, item, links, meta=None):
    return {"op": "rules", "kind": kind, "item": item, "links": links, "patterns": disallow_patterns(item),
            "meta": meta or {}}


def classify(item, links, bad, got_ok):
    """which single clause of the reference algorithm, switched off, reproduces the implementation's decision?"""
    for relax in (("ignore_match_pattern",), ("ignore_missing_src_prefix",), ("skip_bad_disallow",),
                  ("ignore_match_pattern", "ignore_missing_src_prefix"),
                  ("ignore_match_pattern", "ignore_missing_src_prefix", "skip_bad_disallow")):
        if rulemodel.decide(item, links, bad, relax) == got_ok:
            return "+".join(relax)
    kinds = sorted({r[0] for r in item["expected_materials"] + item["expected_products"]})
    return "unexplained:" + "+".join(kinds)


def judge(case, obs, res):
    if "r" not in obs:
        res.inconclusive.append(f"executor failure: {str(obs)[:200]}")
        return None
    item, links = case["item"], case["links"]
    pats = case["patterns"]
    badmap = dict(zip(pats, obs.get("bad_patterns", [])))
    bad = lambda p: badmap.get(p, False)
    want = rulemodel.decide(item, links, bad)
    if obs["r"] == "panic":
        res.violate(f"rule-application-panic:{obs['panic']['loc'].rsplit(':', 1)[0]}",
                    f"rule application panicked: {obs['panic']['msg']}", case, obs, "ok" if want else "err")
        return want
    got = obs["r"] == "ok"
    if got != want:
        why = classify(item, links, bad, got)
        res.violate(f"rule-decision-differs:{'accepts' if got else 'rejects'}:{why}",
                    f"rule application {'accepts' if got else 'rejects'} where the specification's algorithm "
                    f"{'accepts' if want else 'rejects'} (explained by: {why}); rules M={item['expected_materials']} "
                    f"P={item['expected_products']}", case, obs, "ok" if want else "err")
    return want


def case_classes(item, want):
    cls = ["reference:" + ("accept" if want else "reject")]
    for r in item["expected_materials"] + item["expected_products"]:
        cls.append("rule:" + r[0])
        if r[0] == "MATCH":
            if "IN" in r[2:4]:
                cls.append("match:src_prefix")
            if r[-4] == "IN":
                cls.append("match:dst_prefix")
        if r[0] == "DISALLOW" and r[1] in BAD:
            cls.append("disallow:uninterpretable_pattern")
    return sorted(set(cls))


def shard_random(binpath, seed, sh, n):
    rng = common.rng_for(seed, PROP, sh)
    res = common.Result()
    cases = [to_case(*rand_case(rng)) for _ in range(n)]
    obs = common.run_batch(binpath, cases, keys=False)
    for c, o in zip(cases, obs):
        want = judge(c, o, res)
        if want is None:
            continue
        nontrivial = bool(c["item"]["expected_materials"] or c["item"]["expected_products"]) and \
            bool(c["links"]["item"]["materials"] or c["links"]["item"]["products"])
        res.note([c["item"], c["links"]], nontrivial, cls=case_classes(c["item"], want) + ["kind:" + c["kind"]])
    if sh == 0:
        for c, o in list(zip(cases, obs))[:3]:
            res.sample({"item": c["item"], "links": c["links"], "observed": o.get("r"),
                        "reference": rulemodel.decide(c["item"], c["links"])})
    return res


# ---- complete small scope ------------------------------------------------------------------

SS_NAMES = ["foo", "src/a.c", "bar"]
SS_PATTERNS = ["*", "foo", "src/*", "b?r"]


def small_scope_rules():
    rules = [[k, p] for k in SIMPLE for p in SS_PATTERNS]
    for p in SS_PATTERNS:
        for pre in (None, "src"):
            for w in ("MATERIALS", "PRODUCTS"):
                r = ["MATCH", p] + (["IN", pre] if pre else []) + ["WITH", w, "FROM", "ref0"]
                rules.append(r)
    return rules


def small_scope_cases(shard, nshards, sample=None, rng=None):
    rules = small_scope_rules()
    lists = [[]] + [[r] for r in rules] + [[a, b] for a in rules for b in rules]
    assigns = list(itertools.product(STATES, repeat=3))
    refstates = ["absent", "equal", "different"]
    total = len(lists) * len(assigns) * len(refstates)
    idx = 0
    for li, rl in enumerate(lists):
        if sample is None and li % nshards != shard:
            continue
        for asg in assigns:
            for rs in refstates:
                idx += 1
                if sample is not None and rng.random() > sample:
                    continue
                states = dict(zip(SS_NAMES, asg))
                links = {"item": link_from_states("item", states)}
                if rs != "absent":
                    src = links["item"]
                    # reference step exposing the item's products/materials (and prefix-stripped names)
                    def shift(d):
                        out = {}
                        for k, v in d.items():
                            out[k] = v if rs == "equal" else dg(7)
                            if k.startswith("src/"):
                                out[k[4:]] = v if rs == "equal" else dg(7)
                        return out
                    links["ref0"] = scen.mk_link("ref0", shift(src["materials"]), shift(src["products"]), [], {}, None)
                # the list is applied to the products (li even) or the materials (li odd)
                item = scen.mk_step("item", 1, [], [], rl if li % 2 else [], [] if li % 2 else rl)
                yield to_case("step", item, links)
    return


def shard_small(binpath, seed, sh, nshards, sample):
    res = common.Result()
    rng = common.rng_for(seed, PROP, 500 + sh)
    if sample is not None and sh != 0:
        return res
    batch = []
    total = 0

    def flush():
        nonlocal batch, total
        if not batch:
            return
        obs = common.run_batch(binpath, batch, keys=False)
        for c, o in zip(batch, obs):
            want = judge(c, o, res)
            if want is None:
                continue
            total += 1
            res.evaluations += 1
            res.classes["small_scope:" + ("accept" if want else "reject")] += 1
            if total % 101 == 0:
                res.distinct.add(common.h8([c["item"], c["links"]]))
        batch = []
    for c in small_scope_cases(sh, nshards, sample, rng):
        batch.append(c)
        if len(batch) >= 20000:
            flush()
    flush()
    res.extras["small_scope_cases"] = total
    return res


def prefix_algebra_cases():
    """complete, seed-independent family for the prefix arithmetic of MATCH: every source prefix x destination prefix
    (absent or one of PREFIXES) x a pattern x an item artifact chosen among the names that a correct or a sloppy treatment
    of the source prefix could take for "below the prefix" (directory prefix, same characters without separator, nested
    twice) x the referenced step holding the counterpart under the correct destination name, under sloppy ones, or not at
    all.  Rules: [MATCH .., DISALLOW *] on products."""
    pres = [None] + PREFIXES[:4]
    for sp in pres:
        for dp in pres:
            for base in ("x", "a.c"):
                item_names = {base}
                if sp:
                    item_names |= {sp + "/" + base, sp + base, sp + "/" + sp + "/" + base, sp + "x/" + base}
                for pat in ("*", base):
                    for iname in sorted(item_names):
                        correct = (dp + "/" if dp else "") + base
                        sloppy = sorted({correct, base, (dp or "") + base, (dp + "/" + dp + "/" + base) if dp else base, "/" + base} - {""})
                        for rname in sloppy + [None]:
                            for same in (True, False):
                                if rname is None and not same:
                                    continue
                                rule = ["MATCH", pat] + (["IN", sp] if sp else []) + ["WITH", "PRODUCTS"] + (["IN", dp] if dp else []) + ["FROM", "ref0"]
                                item = scen.mk_step("item", 1, [], [], [], [rule, ["DISALLOW", "*"]])
                                links = {"item": scen.mk_link("item", {}, {iname: dg(2)}, [], {}, None)}
                                if rname is not None and not rname.startswith("/"):
                                    links["ref0"] = scen.mk_link("ref0", {}, {rname: dg(2) if same else dg(6)}, [], {}, None)
                                elif rname is not None:
                                    continue
                                else:
                                    links["ref0"] = scen.mk_link("ref0", {}, {}, [], {}, None)
                                yield to_case("step", item, links, {"family": "prefix_algebra"})


def shard_prefix_algebra(binpath):
    res = common.Result()
    cases = list(prefix_algebra_cases())
    obs = common.run_sharded(binpath, cases, keys=False)
    n = 0
    for c, o in zip(cases, obs):
        want = judge(c, o, res)
        if want is None:
            continue
        n += 1
        res.evaluations += 1
        res.classes["prefix_algebra:" + ("accept" if want else "reject")] += 1
        if n % 17 == 0:
            res.distinct.add(common.h8([c["item"], c["links"]]))
    res.extras["prefix_algebra_cases"] = n
    return res


# ---- end to end ----------------------------------------------------------------------------


def e2e(binpath, seed, n):
    """the same kind of cases embedded in real layouts: as a step and as an inspection whose working
    directory is prepared so that its recorded materials/products are exactly the case's artifacts"""
    rng = common.rng_for(seed, PROP, 900)
    W = scen.World(binpath)
    res = common.Result()
    plans, reqs = [], []
    for i in range(n):
        while True:
            kind, item, links = rand_case(rng)
            # an inspection's own artifacts are real files: only digests of real contents can be recorded for them
            real = [dg(t) for t in CONTENT]
            if kind == "step" or all(d in real for fld in ("materials", "products") for d in links["item"][fld].values()):
                break
        # keep the pipeline's own stages out of the way
        refs = [r for r in links if r != "item"]
        steps = []
        for r in refs:
            steps.append(scen.mk_step(r, 1, [W.kid("ed4")], [], [["ALLOW", "*"]], [["ALLOW", "*"]]))
        states = None
        if kind == "step":
            st = scen.mk_step("item", 1, [W.kid("ed5")], [], item["expected_materials"], item["expected_products"])
            steps.append(st)
            insp = []
            work, ops = {}, []
        else:
            # derive per-file operations from the item's link
            il = links["item"]
            work = {}
            ops = []
            for p, d in il["materials"].items():
                tag = next(t for t in CONTENT if dg(t) == d)
                work[p] = CONTENT[tag]
            for p in il["materials"]:
                if p not in il["products"]:
                    ops.append(f"rm -f '{p}'")
            for p, d in il["products"].items():
                tag = next(t for t in CONTENT if dg(t) == d)
                if il["materials"].get(p) != d:
                    ops.append(f"mkdir -p \"$(dirname '{p}')\"; printf 'content-{tag}\\n' > '{p}'")
            insp = [scen.mk_inspection("item", ["sh", "-c", "; ".join(ops) or ":"], item["expected_materials"],
                                       item["expected_products"])]
            if not steps:
                steps.append(scen.mk_step("ref9", 1, [W.kid("ed4")], [], [["ALLOW", "*"]], [["ALLOW", "*"]]))
                links = dict(links, ref9=scen.mk_link("ref9", {}, {}, [], {}, None))
        layout = scen.mk_layout(W, ["ed4", "ed5"], steps, insp)
        base = len(reqs)
        reqs.append((layout, ["ed0"], "new"))
        lk = []
        for nm, l in links.items():
            if nm == "item" and kind != "step":
                continue
            k = "ed5" if nm == "item" else "ed4"
            lk.append((nm, k, len(reqs)))
            reqs.append((l, [k], "new"))
        plans.append((kind, item, links, base, lk, work))
    wires = scen.sign_all(binpath, reqs, nproc=1, tolerate=True)
    cases = []
    for kind, item, links, base, lk, work in plans:
        if any(wires[r] is None for nm, k, r in lk):
            raise common.Inconclusive("library refused to sign a generated link")
        files = {f"{nm}.{W.pfx(k)}.link": scen.dumps(wires[r]) for nm, k, r in lk}
        meta = {"kind": kind, "item": item, "links": {k: v for k, v in links.items()}}
        if wires[base] is not None:
            cases.append(scen.verify_case(wires[base], [[W.kid("ed0"), W.pub("ed0")]], files, work_files=work, meta=meta))
        else:
            # a layout the library will not even load is not enforced: nothing to observe through this route
            res.classes["e2e:layout_refused_when_read"] += 1
        # the same layout never read from text: built with the public constructors, signed, handed over as a value
        c = scen.verify_case("(built in memory)", [[W.kid("ed0"), W.pub("ed0")]], files, work_files=work, meta=dict(meta, in_memory=True))
        c["build_in_memory"] = {"doc": reqs[base][0], "signers": ["ed0"]}
        cases.append(c)
    pat_cases = [{"op": "rules", "kind": "step", "item": scen.mk_step("x", 1, [], [], [], []), "links": {"x": scen.mk_link("x")},
                  "patterns": BAD}]
    badobs = common.run_batch(binpath, pat_cases, keys=False)[0]
    badmap = dict(zip(BAD, badobs.get("bad_patterns", [])))
    obs = common.run_sharded(binpath, cases)
    for c, o in zip(cases, obs):
        if scen.harness_failed(o):
            res.inconclusive.append(f"executor failure: {str(o)[:200]}")
            continue
        m = c["meta"]
        item, links = m["item"], m["links"]
        # a step whose own link is missing is rejected by link loading, not by the rules
        want = rulemodel.decide(item, links, lambda p: badmap.get(p, False))
        # referenced steps without links make the *pipeline* fail earlier (every step of a layout needs a link)
        missing = [s for s in ("ref0", "ref1") if any(r[0] == "MATCH" and r[-1] == s for r in item["expected_materials"] + item["expected_products"]) and s not in links]
        got = o["runs"][0]["v"] == "ok"
        if o["runs"][0]["v"] == "panic":
            res.violate("e2e-panic", f"verification panicked: {o['runs'][0]['panic']}", c, o, None)
            continue
        if o["runs"][0]["v"] == "build_err":
            res.classes["e2e:in_memory_build_refused"] += 1
            continue
        res.note([c["layout"], sorted(c["files"]), json.dumps(m["item"], sort_keys=True)], True, cls=["e2e:" + m["kind"] + (":built_in_memory" if m.get("in_memory") else ""), "e2e_reference:" + ("accept" if want else "reject"),
                                                              "e2e_observed:" + ("accept" if got else "reject")])
        if got != want:
            why = classify(item, links, lambda p: badmap.get(p, False), got)
            res.violate(f"e2e-rule-decision-differs:{m['kind']}:{'accepts' if got else 'rejects'}:{why}",
                        f"end-to-end verification {'accepts' if got else 'rejects'} where the specification's algorithm "
                        f"{'accepts' if want else 'rejects'} for the {m['kind']}'s rules ({o['runs'][0].get('e')})", c, o,
                        "accept" if want else "reject")
    return res


def inspection_references(binpath, seed):
    """an inspection's rules may refer to any other item of the layout, also to an inspection listed after it: rules are
    applied when all inspections have run (every referenced link exists), exactly as for items listed before"""
    W = scen.World(binpath)
    res = common.Result()
    work = {"foo": CONTENT[1], "bar": CONTENT[2]}
    base_link = {"foo": dg(1), "bar": dg(2)}
    templates = [
        [["MATCH", "foo", "WITH", "MATERIALS", "FROM", "OTHER"], ["ALLOW", "bar"], ["DISALLOW", "*"]],
        [["MATCH", "foo", "WITH", "MATERIALS", "FROM", "OTHER"], ["REQUIRE", "foo"], ["ALLOW", "*"]],
        [["MATCH", "foo", "WITH", "PRODUCTS", "FROM", "OTHER"], ["MATCH", "bar", "WITH", "MATERIALS", "FROM", "OTHER"], ["DISALLOW", "*"]],
        [["MATCH", "f*", "WITH", "MATERIALS", "FROM", "OTHER"], ["DISALLOW", "foo"], ["ALLOW", "*"]],
        [["MATCH", "nothing", "WITH", "MATERIALS", "FROM", "OTHER"], ["DISALLOW", "foo"], ["ALLOW", "*"]],
        [["MATCH", "foo", "WITH", "MATERIALS", "FROM", "no-such-item"], ["DISALLOW", "foo"], ["ALLOW", "*"]],
    ]
    plans, reqs = [], []
    for ti, tpl in enumerate(templates):
        for side in ("expected_materials", "expected_products"):
            for order in ("refers_to_later", "refers_to_earlier"):
                rules = [[("second" if order == "refers_to_later" else "first") if x == "OTHER" else x for x in r] for r in tpl]
                mine = "first" if order == "refers_to_later" else "second"
                other = "second" if mine == "first" else "first"
                insp = []
                for nm in ("first", "second"):
                    mr = rules if (nm == mine and side == "expected_materials") else [["ALLOW", "*"]]
                    pr = rules if (nm == mine and side == "expected_products") else [["ALLOW", "*"]]
                    insp.append(scen.mk_inspection(nm, ["sh", "-c", ":"], mr, pr))
                steps = [scen.mk_step("ref9", 1, [W.kid("ed4")], [], [["ALLOW", "*"]], [["ALLOW", "*"]])]
                layout = scen.mk_layout(W, ["ed4"], steps, insp)
                # what the two inspections record: the prepared files; the second one also sees the first one's link file,
                # which no rule here names
                item = {"name": mine, "expected_materials": rules if side == "expected_materials" else [["ALLOW", "*"]],
                        "expected_products": rules if side == "expected_products" else [["ALLOW", "*"]]}
                mine_link = scen.mk_link(mine, dict(base_link), dict(base_link))
                other_link = scen.mk_link(other, dict(base_link), dict(base_link))
                if mine == "second":
                    mine_link["materials"]["first.link"] = {"sha256": "00" * 32}
                    mine_link["products"]["first.link"] = {"sha256": "00" * 32}
                else:
                    other_link["materials"]["first.link"] = {"sha256": "00" * 32}
                    other_link["products"]["first.link"] = {"sha256": "00" * 32}
                plans.append((len(reqs), order, side, ti, item, {mine: mine_link, other: other_link}))
                reqs.append((layout, ["ed0"], "new"))
                reqs.append((scen.mk_link("ref9", {}, {}, [], {}, None), ["ed4"], "new"))
    wires = scen.sign_all(binpath, reqs, nproc=1)
    cases = []
    for b, order, side, ti, item, links in plans:
        cases.append(scen.verify_case(wires[b], [[W.kid("ed0"), W.pub("ed0")]], {f"ref9.{W.pfx('ed4')}.link": scen.dumps(wires[b + 1])}, work_files=work,
                                      meta={"order": order, "side": side, "template": ti, "item": item, "links": links}))
    obs = common.run_batch(binpath, cases)
    for c, o in zip(cases, obs):
        m = c["meta"]
        if scen.harness_failed(o):
            res.inconclusive.append(f"executor failure: {str(o)[:200]}")
            continue
        want = rulemodel.decide(m["item"], m["links"])
        got = o["runs"][0]["v"] == "ok"
        res.note([c["layout"]], True, cls=[f"inspection_reference:{m['order']}", "inspection_reference:reference_" + ("accept" if want else "reject")])
        if got != want:
            res.violate(f"e2e-rule-decision-differs:inspection_{m['order']}:{'accepts' if got else 'rejects'}",
                        f"end-to-end verification {'accepts' if got else 'rejects'} where the specification's algorithm {'accepts' if want else 'rejects'}: the "
                        f"{m['side']} of an inspection that {m['order'].replace('_', ' ')} inspection are {m['item'][m['side']]} ({o['runs'][0].get('e')})",
                        c, o, "accept" if want else "reject")
    return res


def replay(ctx, case, res):
    if case.get("op") == "rules":
        o = common.run_batch(ctx.bin, [case], keys=False)[0]
        judge(case, o, res)
    else:
        o = common.run_batch(ctx.bin, [case])[0]
        m = case["meta"]
        want = rulemodel.decide(m["item"], m["links"], lambda p: p in BAD)
        got = o["runs"][0]["v"] == "ok"
        if got != want:
            res.violate("e2e-rule-decision-differs", "reproduced", case, o, None)


def main(ctx):
    res = common.Result()
    n = common.NPROC
    per = 2000 if not ctx.thorough else 62500
    for p in common.pmap(shard_random, [(ctx.bin, ctx.seed, s, per) for s in range(n)]):
        res.merge(p)
    if ctx.thorough:
        for p in common.pmap(shard_small, [(ctx.bin, ctx.seed, s, n, None) for s in range(n)]):
            res.merge(p)
        res.extras["exhaustive_subspaces"] = ["all rule lists of length <= 2 over 40 rules x 125 artifact assignments x "
                                              "3 referenced-step states"]
    else:
        res.merge(shard_small(ctx.bin, ctx.seed, 0, n, 0.01))
    res.merge(shard_prefix_algebra(ctx.bin))
    res.merge(e2e(ctx.bin, ctx.seed, 300 if not ctx.thorough else 5000))
    res.merge(inspection_references(ctx.bin, ctx.seed))
    return common.finish(
        PROP, ctx.tier, ctx.seed, res, t0=ctx.t0,
        rule="random ordered rule lists (0-5 rules per side, seven kinds, 19 portable glob patterns, optional IN prefixes, "
             "uninterpretable patterns only in DISALLOW) x item artifacts (<=6 of 11 names; absent/material/product/"
             "unchanged/modified) x 0-2 referenced steps (present/absent, equal/different digests, shifted prefixes); "
             "decision compared two-sidedly with the reference model; non-trivial = at least one rule and one artifact; "
             "distinct by SHA-256 of (item, links); plus small-scope enumeration and end-to-end embedding",
        assumptions=["lib/rulemodel.py transliterates the specification's algorithm and the reference implementation's "
                     "verify_match_rule", "fnmatchcase == glob crate on the portable subset (validated 500/500)",
                     "whether a pattern is uninterpretable is observed from the implementation's matcher"],
        required=["reference:accept", "reference:reject", "rule:MATCH", "rule:CREATE", "rule:DELETE", "rule:MODIFY",
                  "rule:ALLOW", "rule:REQUIRE", "rule:DISALLOW", "match:src_prefix", "match:dst_prefix",
                  "disallow:uninterpretable_pattern", "kind:inspection", "e2e:step", "e2e:inspection", "e2e:step:built_in_memory", "inspection_reference:refers_to_later", "inspection_reference:reference_accept", "inspection_reference:reference_reject", "e2e:inspection:built_in_memory",
                  "e2e_reference:accept", "e2e_reference:reject", "small_scope:accept", "small_scope:reject"],
        min_evals=20000)
