#!/usr/bin/env python3
"""Regenerates MANIFEST.json from the table below (run after adding/removing a check)."""
import json
import os
import subprocess

HERE = os.path.dirname(os.path.abspath(__file__))

CHECKS = {
    "C01": ("exploration", "reference-oracle monitor over generated final-product verifications (ground truth by construction)",
            "Runs the real in_toto_verify over otherwise-valid scenarios while varying owner signers, caller key map, summary name and one post-signing action (single-field edit of the wire text, signature corruption, edit of the parsed value in memory, verification of the genuine layout first with the same key objects); "
            "flags every Ok that the construction says must be rejected. Sampled, not exhaustive: held on the executions observed.",
            "signature validity by construction; ring correct; semantics-preserving edits classified by the library's PartialEq", "5 C01"),
    "C02": ("exploration", "reference-oracle monitor over generated link directories",
            "Every (step,key) link file is put in a known state; the count of legitimately counting keys per step is computed from the descriptor and compared with the verdict.",
            "who validly signed what is known by construction", "5 C02"),
    "C03": ("exploration", "executable reference model (differential monitor) + small-scope enumeration",
            "Two-sided comparison of rule application (hook) and of end-to-end verification (steps and inspections) with a Python transliteration of the specification's algorithm; thorough enumerates all rule lists of length <=2 over 40 rules x 125 artifact assignments x 3 reference states.",
            "rulemodel.py is a faithful transliteration; fnmatchcase == glob crate on the portable subset; portable/normalised domain only", "5 C03"),
    "C04": ("exploration", "reference-oracle monitor over constructed signature lists",
            "Metablock::verify is driven with signature lists whose valid entries are known by construction; soundness, converse (at-most-once lists), permutation invariance and returned content (incl. the key table of a returned layout as it is in memory) are checked; histories replay genuine signatures on other content; twin contents probe the injectivity of the signed bytes.",
            "signature validity by construction; ring correct", "5 C04"),
    "C05": ("exploration", "metamorphic monitor (single-field edits) + collision dictionaries over deterministic signatures",
            "Every sampled single-field edit of signed metadata that changes the parsed value must invalidate the kept signatures; near-collision string families are compared pairwise through signature->value and bytes->value dictionaries.",
            "ed25519 determinism; library PartialEq defines 'unequal parsed values'", "5 C05"),
    "C06": ("exploration", "three-valued clock-interval monitor over expiry sweeps",
            "Expiry instants at controlled offsets from the real clock in every RFC 3339 notation, at top level and in delegated layouts (also next to other evidence), with and without a summary name, with the verifying process in other time zones and with SOURCE_DATE_EPOCH/FAKETIME set, after other verifications in the same process, and while another verification runs on a second thread of the process; Ok after expiry (w.r.t. the logged call interval) is a violation.",
            "real clock only (sweep of the expiry instead of the clock); expiry instant known by construction", "5 C06"),
    "C07": ("exploration", "reference-oracle monitor with repetition over fresh hash seeds",
            "Multi-party steps with one dissenting link in one aspect (17 kinds incl. digest-less entries and respelled paths), dissenter at smallest/middle/largest key id, optionally co-signing another link, 8 repetitions each; delegated dissent through identical sub-layouts with differing directories.",
            "validity of links by construction", "5 C07"),
    "C08": ("fault_enumeration", "fault enumeration observed through the inspection command's own side effects",
            "Complete grid failing stage (26, incl. 'expired meanwhile') x inspection outcome (10) x rule set (7) x 1-2 inspections x level; each cell is one real verification in a fresh working directory; the inspection command records that it ran.",
            "/bin/sh present; stage ground truth by construction", "5 C08"),
    "C09": ("exploration", "round-trip monitor with negative controls",
            "sign (3 construction paths) -> 4 writers -> parse -> verify(#signers) must hold for hostile content and every key type; other key / bit flip / other PSS scheme must fail.",
            "ring correct; serde_json is the wire reader", "5 C09"),
    "C10": ("exploration", "differential monitor against an independent encoder + complete Unicode sweep",
            "Canonicalisation of 4 spellings per generated value through 7 public routes (incl. a short-writing sink and the crate's own readers) compared with Python's encoder, parsed back, non-integers rejected; every Unicode scalar value as string and key; complete nesting sweep to the reader's depth limit.",
            "Python json is the reference encoder/parser", "5 C10"),
    "C11": ("exploration", "differential monitor against the reference (OLPC) encoding with OpenSSL as foreign party",
            "Library signatures must equal/verify over Python-computed reference bytes; reference-bytes signatures (raw signer, OpenSSL) must be accepted; key ids recomputed.",
            "olpc_canon() matches securesystemslib; OpenSSL CLI correct; ed25519 determinism", "5 C11"),
    "C12": ("exploration", "cross-path identity monitor with OpenSSL encodings as the interoperability reference",
            "Every public-key construction path for pool keys (RSA moduli of 50 sizes from 2048 to 8192 bits; thorough: +120 fresh OpenSSL keys): ids equal across paths, equal to an independent SHA-256 of the reference encoding, stable across JSON; OpenSSL's SPKI must import and re-export byte-identically; parsed key tables and end-to-end aliasing scenarios.",
            "OpenSSL's SubjectPublicKeyInfo is the standards-conformant reference; olpc_canon + SHA-256 in Python", "5 C12"),
    "C14": ("exploration", "crash monitor (catch_unwind + supervised sub-processes) + ASan, valgrind memcheck, Miri and libFuzzer passes",
            "28 entry points (incl. well-formed degenerate keys) + rule application + final-product verification over hostile link directories, fed random bytes, byte/JSON mutations and well-typed adversarial documents; process death / CPU-limit kills are reproduced in isolation; thorough repeats the corpus under ASan, plain release, valgrind and Miri and runs 4 coverage-guided fuzz targets.",
            "panic / abort / CPU-limit are the crash events; ring's C/asm is not instrumented by ASan and not reachable by Miri; wall-clock watchdogs are inconclusive", "5 C14"),
    "C16": ("exploration", "round-trip monitor over schema-generated documents with tree comparison",
            "Accepted documents of every wire type: 4 writers x (parse back equal, re-serialise byte-identical) and comparison of the re-serialised tree with the input after the documented normalisations.",
            "normalise() lists the documented normalisations; out-of-domain inputs are listed in the evidence", "5 C16"),
    "C17": ("exploration", "differential monitor across decoding channels and spellings",
            "Valid and mutated documents of 14 public types x 3 spellings x 8 decoding channels plus the crate's own 'layout or link' entry points: one outcome class and one value per document and decode target.",
            "serde_json::Value parsing defines 'same content'", "5 C17"),
    "C18": ("exploration", "reference-walk monitor over generated directory trees and commands",
            "record_artifacts / in_toto_run on generated trees (symlinks, chains, cycles, odd names, sizes around the read buffer) compared with an independent os/hashlib walk; cyclic trees are checked with bounds.",
            "os.stat/os.listdir/hashlib walk is the reference; dangling links, non-UTF-8 names, special files out of domain", "5 C18"),
    "C19": ("exploration", "schema-driven monitor with per-version acceptance lists (hook) and metamorphic timestamp check",
            "Documents from the wire schemas of all statement/predicate versions incl. every optional-field subset and every (declared, actual) type pair: exactly one accepting version, canonical form parses back equal (timestamps to the nanosecond), declared==actual, from_meta carries fields over.",
            "generator schemas transliterate the serde attributes; hook per-version parsers are the library's own", "5 C19"),
    "C13": ("exploration", "repetition monitor over fresh hash seeds and fresh processes",
            "Order-sensitive scenarios (surplus differing links, co-signed files, one key under two ids, key ids in capitals or sharing their short form, 144 failing verifications in between, interacting inspections and sub-layouts, directory enumeration order on two file systems, histories, key forms across processes, a concurrent neighbour call) verified R x P times (up to 2500 per scenario); exactly one (verdict, summary) outcome allowed; distinct iteration / enumeration orders actually experienced are recorded.",
            "std RandomState gives fresh keys per map/process", "5 C13"),
    "C15": ("exploration", "reference-oracle monitor over delegation trees with exact summary comparison",
            "One failure mode injected into one delegated node of a depth 1-3 tree; positive controls compare the returned summary link with the value computed from the descriptor; surplus inner links, step names with pattern characters, inspections named like a step.",
            "ground truth by construction", "5 C15"),
    "C20": ("exploration", "round-trip / injectivity dictionary monitor + enumerated decoder inputs",
            "PAE pack/unpack (hook): round trip over a complete length sweep, payloads to 10 MB, comparison with an independent encoder, injectivity dictionary, ~10^6 enumerated decoder inputs must yield pair or error.",
            "DSSE v1 PAE definition as transliterated", "5 C20"),
}

NOT_YET = {}


def main():
    commits = subprocess.run(["git", "-C", "/repo", "log", "--format=%h %s"], capture_output=True, text=True).stdout.splitlines()
    hook_commits = [c.split()[0] for c in commits if "verif-hooks" in c]
    checks = []
    for pid in sorted(CHECKS):
        cat, tech, text, note, ref = CHECKS[pid]
        checks.append({
            "property_id": pid,
            "quick_cmd": f"./check {pid} --tier quick",
            "thorough_cmd": f"./check {pid} --tier thorough",
            "evidence_file": f"/verif/evidence/{pid}.json",
            "replay_cmd_template": f"./check {pid} --replay {{path}}",
            "engine": "itv",
            "level_claimed": {"category": cat, "text": text, "design_ref": f"DESIGN.md §{ref}"},
            "level_note": note,
            "technique": "runtime monitoring: " + tech,
        })
    m = {
        "version": 1,
        "setup_cmd": "cd /verif/harness && cp -n /repo/Cargo.lock Cargo.lock; CARGO_NET_OFFLINE=true cargo build --release --offline",
        "hooks": {
            "guard": "cargo feature verif-hooks (off by default)",
            "enable": "the executor crate /verif/harness depends on in-toto = { path = \"/repo\", features = [\"verif-hooks\"] } and is rebuilt by every ./check invocation",
            "baseline_off_cmd": "cd /repo && cargo test --workspace --no-fail-fast --offline",
            "source_commits": hook_commits,
            "add_only": True,
        },
        "engines": [{"name": "itv", "path": "/verif/harness", "serves_properties": sorted(CHECKS),
                     "kind_free_text": "Rust executor driving the real library (catch_unwind, event log) + Python generators/oracles in /verif/lib"}],
        "checks": checks,
        "notes": "Runtime monitoring only: every verdict is 'held on the executions observed'. Exit 0 held / known finding, 1 violation, 2 inconclusive. See DESIGN.md.",
        "not_applicable": [{"property_id": k, "reason": v} for k, v in sorted(NOT_YET.items()) if k not in CHECKS],
    }
    with open(os.path.join(HERE, "MANIFEST.json"), "w") as f:
        json.dump(m, f, indent=1)
        f.write("\n")
    print("MANIFEST.json written:", len(checks), "checks")


if __name__ == "__main__":
    main()
