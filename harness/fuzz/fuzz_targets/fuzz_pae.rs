#![no_main]
//! DSSE pre-authentication decoding of arbitrary bytes; re-pack of whatever decodes
use in_toto::models::verif_hooks;
use libfuzzer_sys::fuzz_target;

fuzz_target!(|data: &[u8]| {
    if let Ok((payload, typ)) = verif_hooks::pae_unpack(data) {
        let packed = verif_hooks::pae_pack(typ.clone(), &payload);
        let (p2, t2) = verif_hooks::pae_unpack(&packed).expect("re-pack must decode");
        assert_eq!((p2, t2), (payload, typ));
    }
    let _ = verif_hooks::pae_try_unpack(data);
    let _ = verif_hooks::envelope_file_roundtrip(data);
});
