"""Hostile strings, random JSON values and an own JSON printer with spelling variants."""
import json

I64_MIN, I64_MAX, U64_MAX = -(2 ** 63), 2 ** 63 - 1, 2 ** 64 - 1

HOSTILE_CHARS = ["\\", '"', "n", "\n", "\t", "\r", "\x01", "\x1f", "\x7f", "\x00", "\b", "\f",
                 "/", "a", "é", " ", " ", "﻿", "￿", "😀", "\U0010ffff", " ",
                 "u", "0", "{", "}", "[", "]", ",", ":", "\u0080", "퟿", ""]

SHORT = {'"': '\\"', "\\": "\\\\", "\n": "\\n", "\r": "\\r", "\t": "\\t", "\b": "\\b",
         "\f": "\\f", "/": "\\/"}


def rand_scalar(rng):
    r = rng.random()
    if r < 0.35:
        return rng.choice(HOSTILE_CHARS)
    if r < 0.6:
        return chr(rng.randrange(0x20, 0x7f))
    if r < 0.7:
        return chr(rng.randrange(0, 0x20))
    while True:
        c = rng.randrange(0, 0x110000)
        if not (0xD800 <= c <= 0xDFFF):
            return chr(c)


def rand_string(rng, maxlen=8):
    n = rng.choice([0, 1, 1, 2, 3, 4, maxlen])
    return "".join(rand_scalar(rng) for _ in range(n))


def rand_int(rng):
    r = rng.random()
    if r < 0.4:
        return rng.choice([0, 1, -1, I64_MIN, I64_MAX, U64_MAX, I64_MAX + 1, 2 ** 53, 2 ** 53 + 1,
                           2 ** 53 - 1, -(2 ** 53) - 1, 2 ** 32, 10 ** 18, -(10 ** 18), 9, 10, 99, 100])
    if r < 0.7:
        return rng.randrange(-1000, 1000)
    return rng.randrange(I64_MIN, U64_MAX + 1)


def rand_value(rng, depth=0, maxdepth=5):
    r = rng.random()
    if depth >= maxdepth or r < 0.45:
        k = rng.random()
        if k < 0.4:
            return rand_string(rng)
        if k < 0.8:
            return rand_int(rng)
        return rng.choice([None, True, False])
    if r < 0.72:
        return [rand_value(rng, depth + 1, maxdepth) for _ in range(rng.choice([0, 1, 2, 3, 5]))]
    d = {}
    for _ in range(rng.choice([0, 1, 2, 3, 6])):
        d[rand_string(rng, 4)] = rand_value(rng, depth + 1, maxdepth)
    return d


def esc_char(c, rng, allow_raw=True):
    o = ord(c)
    opts = []
    if allow_raw and o >= 0x20 and c not in '"\\':
        opts += ["raw"] * 3
    if c in SHORT:
        opts.append("short")
    opts.append("u")
    k = rng.choice(opts)
    if k == "raw":
        return c
    if k == "short":
        return SHORT[c]
    fmt = rng.choice(["%04x", "%04X"])
    if o >= 0x10000:
        o -= 0x10000
        return "\\u" + fmt % (0xD800 + (o >> 10)) + "\\u" + fmt % (0xDC00 + (o & 0x3FF))
    return "\\u" + fmt % o


def spell_string(s, rng, vary):
    if not vary:
        return json.dumps(s, ensure_ascii=False)
    return '"' + "".join(esc_char(c, rng) for c in s) + '"'


WS = ["", "", " ", "\n", "\t", "\r\n  ", "  "]


def spell(v, rng, permute=True, ws=True, esc=True):
    """One textual spelling of the JSON value v (numbers are never respelled)."""
    def w():
        return rng.choice(WS) if ws else ""
    if v is None:
        return "null"
    if v is True:
        return "true"
    if v is False:
        return "false"
    if isinstance(v, int):
        return str(v)
    if isinstance(v, str):
        return spell_string(v, rng, esc)
    if isinstance(v, list):
        return "[" + w() + ("," + w()).join(spell(x, rng, permute, ws, esc) + w() for x in v) + "]"
    items = list(v.items())
    if permute:
        rng.shuffle(items)
    return "{" + w() + ("," + w()).join(
        spell_string(k, rng, esc) + w() + ":" + w() + spell(x, rng, permute, ws, esc) + w()
        for k, x in items) + "}"


def deep_eq(a, b):
    """JSON value equality that keeps bool/int apart."""
    if type(a) is not type(b):
        return False
    if isinstance(a, list):
        return len(a) == len(b) and all(deep_eq(x, y) for x, y in zip(a, b))
    if isinstance(a, dict):
        return a.keys() == b.keys() and all(deep_eq(a[k], b[k]) for k in a)
    return a == b


def ref_canon(v):
    """Independent reference encoder for the *escaped* canonical form (C10)."""
    return json.dumps(v, sort_keys=True, ensure_ascii=False, separators=(",", ":"))


def olpc_canon(v):
    """OLPC canonical JSON as used by the in-toto reference implementation (securesystemslib
    encode_canonical): only backslash and double quote are escaped; everything else is raw UTF-8;
    object keys sorted by code point; integers in decimal; no floats."""
    if v is None:
        return "null"
    if v is True:
        return "true"
    if v is False:
        return "false"
    if isinstance(v, int):
        return str(v)
    if isinstance(v, str):
        return '"' + v.replace("\\", "\\\\").replace('"', '\\"') + '"'
    if isinstance(v, list):
        return "[" + ",".join(olpc_canon(x) for x in v) + "]"
    if isinstance(v, dict):
        return "{" + ",".join(olpc_canon(k) + ":" + olpc_canon(v[k]) for k in sorted(v)) + "}"
    raise ValueError(f"not canonicalisable: {v!r}")
