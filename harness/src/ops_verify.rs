//! final-product verification over a materialised scenario; artifact recording

use std::collections::{BTreeMap, HashMap, HashSet};
use std::path::Path;
use std::str::FromStr;
use std::time::{SystemTime, UNIX_EPOCH};

use in_toto::crypto::{KeyId, PublicKey};
use in_toto::models::Metablock;
use in_toto::runlib::{in_toto_run, record_artifacts};
use in_toto::verifylib::in_toto_verify;
use serde_json::{json, Value};

use crate::keys::Registry;
use crate::util::{clip, guarded, outcome, unhex};

fn now_ns() -> u128 {
    SystemTime::now()
        .duration_since(UNIX_EPOCH)
        .map(|d| d.as_nanos())
        .unwrap_or(0)
}

fn materialise(root: &Path, files: &Value) {
    materialise_ordered(root, files, &Value::Null)
}

/// entries named in `order` are created first, in that order (directory
/// enumeration order of some file systems follows creation order)
fn materialise_ordered(root: &Path, files: &Value, order: &Value) {
    std::fs::create_dir_all(root).expect("harness: mkdir");
    if let Some(m) = files.as_object() {
        let mut seq: Vec<(&String, &Value)> = Vec::new();
        if let Some(first) = order.as_array() {
            for name in first.iter().filter_map(|n| n.as_str()) {
                if let Some((k, v)) = m.get_key_value(name) {
                    seq.push((k, v));
                }
            }
        }
        for (k, v) in m {
            if !seq.iter().any(|(k2, _)| *k2 == k) {
                seq.push((k, v));
            }
        }
        for (rel, content) in seq {
            let p = root.join(rel);
            if let Some(parent) = p.parent() {
                std::fs::create_dir_all(parent).expect("harness: mkdir -p");
            }
            match content {
                Value::String(s) => {
                    std::fs::write(&p, s.as_bytes()).expect("harness: write")
                }
                Value::Object(o) => {
                    if let Some(h) = o.get("hex") {
                        std::fs::write(&p, unhex(h.as_str().unwrap()))
                            .expect("harness: write");
                    } else if o.contains_key("dir") {
                        std::fs::create_dir_all(&p).expect("harness: mkdir");
                    } else if o.contains_key("fifo") {
                        let st = std::process::Command::new("mkfifo").arg(&p).status();
                        assert!(st.map(|s| s.success()).unwrap_or(false), "harness: mkfifo");
                    } else if let Some(t) = o.get("symlink") {
                        std::os::unix::fs::symlink(t.as_str().unwrap(), &p)
                            .expect("harness: symlink");
                    }
                }
                _ => panic!("harness: bad file content"),
            }
        }
    }
}

fn listing(dir: &Path, prefix: &str, depth: usize, out: &mut BTreeMap<String, Value>) {
    let rd = match std::fs::read_dir(dir) {
        Ok(r) => r,
        Err(_) => return,
    };
    for e in rd.flatten() {
        let name = format!("{}{}", prefix, e.file_name().to_string_lossy());
        let md = match std::fs::symlink_metadata(e.path()) {
            Ok(m) => m,
            Err(_) => continue,
        };
        if md.is_dir() {
            out.insert(format!("{}/", name), Value::Null);
            if depth > 0 {
                listing(&e.path(), &format!("{}/", name), depth - 1, out);
            }
        } else if md.is_file() {
            let data = std::fs::read(e.path()).unwrap_or_default();
            let cut = data.len().min(4000);
            out.insert(
                name,
                json!(String::from_utf8_lossy(&data[..cut]).to_string()),
            );
        } else {
            out.insert(name, json!({"special": true}));
        }
    }
}

/// The `verify` op, see DESIGN.md §2.
pub fn verify(case: &Value, reg: &Registry, scratch: &Path, idx: usize) -> Value {
    let root = scratch.join(format!("c{}", idx));
    let _ = std::fs::remove_dir_all(&root);
    let links = root.join("links");
    let mut work = root.join("work");
    // optional: put the working directory on another file system (e.g. a tmpfs, whose directory enumeration
    // order follows creation order); falls back to the scratch directory when that place is not usable
    let mut alt_root: Option<std::path::PathBuf> = None;
    if let Some(wr) = case.get("work_root").and_then(|v| v.as_str()) {
        let cand = Path::new(wr)
            .join(format!("itv-{}-c{}", std::process::id(), idx));
        let _ = std::fs::remove_dir_all(&cand);
        if std::fs::create_dir_all(cand.join("work")).is_ok() {
            work = cand.join("work");
            alt_root = Some(cand);
        }
    }
    materialise(&links, &case["files"]);
    materialise_ordered(&work, &case["work_files"], &case["work_order"]);
    let old_cwd = std::env::current_dir().expect("harness: cwd");
    std::env::set_current_dir(&work).expect("harness: chdir");

    let layout_text = case["layout"].as_str().expect("harness: layout text");
    let reps = case["reps"].as_u64().unwrap_or(1) as usize;
    let step_name = case["step_name"].as_str();
    let link_dir = links.to_str().unwrap().to_string();
    let mut o = json!({});
    o["work_root_used"] = json!(alt_root.is_some());
    if let Ok(rd) = std::fs::read_dir(&work) {
        // the enumeration order this run's working directory really has
        o["work_enumeration"] = json!(rd
            .flatten()
            .map(|e| e.file_name().to_string_lossy().to_string())
            .collect::<Vec<_>>());
    }

    // caller key map; ids and keys are chosen independently by the generator
    let mut keymap_err = Value::Null;
    let mut pairs: Vec<(KeyId, PublicKey)> = Vec::new();
    for pair in case["caller_keys"].as_array().map(|a| a.as_slice()).unwrap_or(&[]) {
        let id = KeyId::from_str(pair[0].as_str().unwrap());
        let key = crate::util::via_text::<PublicKey>(&pair[1]);
        match (id, key) {
            (Ok(i), Ok(k)) => pairs.push((i, k)),
            (a, b) => {
                keymap_err = json!(format!(
                    "id: {:?} key: {:?}",
                    a.err().map(|e| e.to_string()),
                    b.err().map(|e| e.to_string())
                ));
            }
        }
    }
    o["keymap_err"] = keymap_err;

    if let Some(orig) = case.get("orig_layout").and_then(|v| v.as_str()) {
        let a = serde_json::from_str::<Metablock>(orig);
        let b = serde_json::from_str::<Metablock>(layout_text);
        o["same_as_orig"] = match (a, b) {
            (Ok(a), Ok(b)) => json!(a.metadata == b.metadata),
            _ => Value::Null,
        };
    }

    // optional: another verification that is already under way on a second thread of this process when
    // the case's own verification runs (its own link directory, the same trusted keys, the same working
    // directory); it is started here, before the optional wait, and joined after the case's runs
    let mut background: Option<std::thread::JoinHandle<Value>> = None;
    if let Some(bg) = case.get("background") {
        let bg_links = root.join("bg_links");
        materialise(&bg_links, &bg["files"]);
        let bg_text = bg["layout"].as_str().expect("harness: background layout text").to_string();
        let bg_dir = bg_links.to_str().unwrap().to_string();
        let bg_pairs = pairs.clone();
        background = Some(std::thread::spawn(move || {
            let t0 = now_ns();
            let r = guarded(|| -> Result<(), String> {
                let l = serde_json::from_str::<Metablock>(&bg_text).map_err(|e| format!("parse: {}", e))?;
                let keymap: HashMap<KeyId, PublicKey> = bg_pairs.iter().cloned().collect();
                in_toto_verify(&l, keymap, &bg_dir, None).map(|_| ()).map_err(|e| e.to_string())
            });
            let t1 = now_ns();
            let v = match r {
                Ok(Ok(())) => json!("ok"),
                Ok(Err(e)) => json!({"err": clip(&e)}),
                Err(p) => json!({"panic": p}),
            };
            json!({"v": v, "t0": t0.to_string(), "t1": t1.to_string()})
        }));
    }

    // optional: do not start before the given wall-clock instant (used to let a layout expire
    // between two verifications of one process); bounded to 60 s
    if let Some(nb) = case.get("not_before_ns").and_then(|v| v.as_str()) {
        if let Ok(nb) = nb.parse::<u128>() {
            let mut waited = 0u32;
            while now_ns() < nb && waited < 6000 {
                std::thread::sleep(std::time::Duration::from_millis(10));
                waited += 1;
            }
        }
    }

    // optional history: other layouts verified first, in this process, with the very same caller key
    // objects (clones of them) and the same link directory
    if let Some(pre) = case.get("pre_layouts").and_then(|v| v.as_array()) {
        let mut pre_runs = Vec::new();
        for t in pre.iter().filter_map(|t| t.as_str()) {
            let r = guarded(|| -> Result<(), String> {
                let l = serde_json::from_str::<Metablock>(t)
                    .map_err(|e| format!("parse: {}", e))?;
                let keymap: HashMap<KeyId, PublicKey> =
                    pairs.iter().cloned().collect();
                in_toto_verify(&l, keymap, &link_dir, step_name)
                    .map(|_| ())
                    .map_err(|e| e.to_string())
            });
            pre_runs.push(match r {
                Ok(Ok(())) => json!("ok"),
                Ok(Err(e)) => json!({"err": clip(&e)}),
                Err(p) => json!({"panic": p}),
            });
        }
        o["pre_runs"] = Value::Array(pre_runs);
    }

    let mut runs = Vec::new();
    let mut last_summary: Option<Value> = None;
    for _ in 0..reps {
        // parse afresh for every repetition: fresh maps, fresh hash seeds
        // (a layout built in memory is never read from text: the text of the case is then only a label)
        let parsed = if case.get("build_in_memory").is_some() {
            Ok(Ok(Metablock { signatures: Vec::new(), metadata: in_toto::models::MetadataWrapper::Link(
                in_toto::models::LinkMetadataBuilder::new().name("placeholder".into()).build().expect("harness: placeholder")) }))
        } else {
            guarded(|| serde_json::from_str::<Metablock>(layout_text))
        };
        let layout = match parsed {
            Ok(Ok(l)) => l,
            Ok(Err(e)) => {
                runs.push(json!({"v": "parse_err", "e": clip(&e.to_string())}));
                break;
            }
            Err(p) => {
                runs.push(json!({"v": "panic", "panic": p, "stage": "parse"}));
                break;
            }
        };
        let mut layout = layout;
        if let Some(b) = case.get("build_in_memory") {
            // the layout is not read from text at all: it is built with the public builders, changed in memory
            // through its public fields, THEN signed, and handed to the verifier as the value it is
            let built = guarded(|| -> Result<Metablock, String> {
                let meta = crate::api_build::build(&b["doc"])?;
                let mut mb = Metablock { signatures: Vec::new(), metadata: meta };
                if let Some(kind) = b["mem_edit"].as_str() {
                    crate::util::mem_edit(&mut mb, kind);
                }
                let names = strs(&b["signers"]).unwrap_or_default();
                let keys: Vec<&in_toto::crypto::PrivateKey> = names.iter().map(|n| reg.get(n)).collect();
                Metablock::new(mb.metadata, &keys).map_err(|e| e.to_string())
            });
            match built {
                Ok(Ok(mb)) => layout = mb,
                Ok(Err(e)) => {
                    runs.push(json!({"v": "build_err", "e": e}));
                    break;
                }
                Err(p) => {
                    runs.push(json!({"v": "build_err", "e": p}));
                    break;
                }
            }
        }
        if let Some(kind) = case.get("mem_edit").and_then(|v| v.as_str()) {
            let before = layout.metadata.clone();
            o["mem_edit_applied"] = json!(crate::util::mem_edit(&mut layout, kind));
            o["mem_edit_changed_value"] = json!(before != layout.metadata);
        }
        let keymap: HashMap<KeyId, PublicKey> = pairs.iter().cloned().collect();
        let t0 = now_ns();
        let guard = crate::util::NoReturnGuard::arm(case.get("call_timeout_s").and_then(|v| v.as_u64()));
        let r = guarded(|| in_toto_verify(&layout, keymap, &link_dir, step_name));
        drop(guard);
        let t1 = now_ns();
        let mut run = match r {
            Ok(Ok(summary)) => {
                let s = serde_json::to_value(&summary).unwrap_or(Value::Null);
                if last_summary.as_ref() == Some(&s) {
                    json!({"v": "ok", "summary": "="})
                } else {
                    last_summary = Some(s.clone());
                    json!({"v": "ok", "summary": s})
                }
            }
            Ok(Err(e)) => json!({"v": "err", "e": clip(&e.to_string())}),
            Err(p) => json!({"v": "panic", "panic": p}),
        };
        run["t0"] = json!(t0.to_string());
        run["t1"] = json!(t1.to_string());
        runs.push(run);
    }
    o["runs"] = Value::Array(runs);
    if let Some(h) = background {
        o["background"] = h.join().unwrap_or_else(|_| json!({"v": "thread-panicked"}));
    }

    // iteration-order diversity actually experienced by fresh maps over the
    // scenario's key ids (evidence for C13)
    if let Some(ids) = case.get("probe_ids").and_then(|v| v.as_array()) {
        let mut orders: HashSet<Vec<String>> = HashSet::new();
        for _ in 0..reps.max(1) {
            let m: HashMap<String, ()> = ids
                .iter()
                .map(|v| (v.as_str().unwrap_or("").to_string(), ()))
                .collect();
            orders.insert(m.keys().cloned().collect());
        }
        o["distinct_orders"] = json!(orders.len());
    }

    let mut l = BTreeMap::new();
    listing(&work, "", 1, &mut l);
    o["work"] = json!(l);
    std::env::set_current_dir(&old_cwd).expect("harness: chdir back");
    let _ = std::fs::remove_dir_all(&root);
    if let Some(a) = alt_root {
        let _ = std::fs::remove_dir_all(&a);
    }
    o
}

fn strs(v: &Value) -> Option<Vec<String>> {
    v.as_array()
        .map(|a| a.iter().map(|s| s.as_str().unwrap().to_string()).collect())
}

/// {cwd, paths, algs: null|[..], lstrip: null|[..]}
pub fn record(case: &Value) -> Value {
    let old_cwd = std::env::current_dir().expect("harness: cwd");
    std::env::set_current_dir(case["cwd"].as_str().unwrap())
        .expect("harness: chdir");
    let paths = strs(&case["paths"]).unwrap();
    let algs = strs(&case["algs"]);
    let lstrip = strs(&case["lstrip"]);
    let p: Vec<&str> = paths.iter().map(|s| &s[..]).collect();
    let a: Option<Vec<&str>> =
        algs.as_ref().map(|v| v.iter().map(|s| &s[..]).collect());
    let l: Option<Vec<&str>> =
        lstrip.as_ref().map(|v| v.iter().map(|s| &s[..]).collect());
    let r = guarded(|| record_artifacts(&p, a.as_deref(), l.as_deref()));
    std::env::set_current_dir(&old_cwd).expect("harness: chdir back");
    outcome(r, |m| {
        // list of [path, {alg: hex}] pairs, in the map's order
        Value::Array(
            m.iter()
                .map(|(k, v)| {
                    json!([k.value(), serde_json::to_value(v).unwrap()])
                })
                .collect(),
        )
    })
}

/// {cwd, name, run_dir, materials, products, cmd, algs, lstrip, key}
pub fn run(case: &Value, reg: &Registry) -> Value {
    let old_cwd = std::env::current_dir().expect("harness: cwd");
    std::env::set_current_dir(case["cwd"].as_str().unwrap())
        .expect("harness: chdir");
    let mats = strs(&case["materials"]).unwrap();
    let prods = strs(&case["products"]).unwrap();
    let cmd = strs(&case["cmd"]).unwrap();
    let algs = strs(&case["algs"]);
    let lstrip = strs(&case["lstrip"]);
    let m: Vec<&str> = mats.iter().map(|s| &s[..]).collect();
    let p: Vec<&str> = prods.iter().map(|s| &s[..]).collect();
    let c: Vec<&str> = cmd.iter().map(|s| &s[..]).collect();
    let a: Option<Vec<&str>> =
        algs.as_ref().map(|v| v.iter().map(|s| &s[..]).collect());
    let l: Option<Vec<&str>> =
        lstrip.as_ref().map(|v| v.iter().map(|s| &s[..]).collect());
    let key = case["key"].as_str().map(|n| reg.get(n));
    let r = guarded(|| {
        in_toto_run(
            case["name"].as_str().unwrap_or("step"),
            case["run_dir"].as_str(),
            &m,
            &p,
            &c,
            key,
            a.as_deref(),
            l.as_deref(),
        )
    });
    std::env::set_current_dir(&old_cwd).expect("harness: chdir back");
    outcome(r, |mb| serde_json::to_value(&mb).unwrap())
}
