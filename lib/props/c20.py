"""C20 — envelope pre-authentication encoding is injective and round-trips.

Monitor over the guarded re-export of pack/unpack: round trip for every generated pair,
injectivity by a dictionary packed-bytes -> pair (all pairs compared), comparison of the
packed bytes with an independent Python encoder, and decode outcome in {pair, error} for
every enumerated / random byte string.
"""
import itertools

import common

PROP = "C20"


def ref_pack(t, p):
    tb = t.encode()
    return b"DSSEv1 " + str(len(tb)).encode() + b" " + tb + b" " + str(len(p)).encode() + b" " + p


def judge_pack(t, p_hex, o, res, seen):
    case = {"op": "pae", "packs": [[t, p_hex]], "unpacks": []}
    if "panic" in o:
        res.violate(f"pack-panic:{o['panic']['loc']}", f"pack panicked: {o['panic']}", case, o, "bytes")
        return
    packed = bytes.fromhex(o["packed"])
    ref = ref_pack(t, bytes.fromhex(p_hex))
    if packed != ref:
        res.violate("pack-differs-from-reference", "packed bytes differ from the DSSE v1 PAE definition",
                    case, o, ref.hex())
    back = o["back"]
    if "panic" in back:
        res.violate(f"unpack-panic:{site(back['panic'])}", f"unpack(pack(t,p)) panicked: {back['panic']['msg']}",
                    case, o, [p_hex, t])
    elif "ok" not in back or back["ok"] != [p_hex, t]:
        res.violate("roundtrip-differs", f"unpack(pack(t,p)) != (p,t): {str(back)[:200]}", case, o, [p_hex, t])
    prev = seen.get(packed)
    if prev is not None and prev != (t, p_hex):
        res.violate("pack-collision", f"two different pairs pack to the same bytes: {prev} and {(t, p_hex)}",
                    case, o, "distinct bytes")
    seen[packed] = (t, p_hex)


def site(p):
    # file:line -> file (lines move)
    return p["loc"].rsplit(":", 1)[0] + ":" + ("slice" if "range" in p["msg"] or "index" in p["msg"] else "other")


def judge_unpack(b_hex, o, res):
    case = {"op": "pae", "packs": [], "unpacks": [b_hex]}
    if "panic" in o:
        res.violate(f"unpack-panic:{site(o['panic'])}", f"unpack of arbitrary bytes panicked: {o['panic']['msg']}",
                    case, o, "pair or error")
        return "panic"
    return "ok" if "ok" in o else "err"


def judge(case, obs, res):
    seen = {}
    for (t, p), o in zip(case.get("packs", []), obs.get("packs", [])):
        judge_pack(t, p, o, res, seen)
    for b, o in zip(case.get("unpacks", []), obs.get("unpacks", [])):
        judge_unpack(b, o, res)
    if case.get("op") == "pae_enum":
        judge_enum(case, obs, res)


def judge_enum(case, o, res):
    for inp, p in o.get("panics", []):
        res.violate(f"unpack-panic:{site(p)}", f"unpack of {bytes.fromhex(inp)!r} panicked: {p['msg']}",
                    {"op": "pae", "packs": [], "unpacks": [inp]}, {"panic": p}, "pair or error")


def rand_type(rng):
    k = rng.random()
    if k < 0.15:
        return ""
    if k < 0.3:
        return rng.choice(["link", "https://in-toto.io/statement/v0.1", "application/vnd.in-toto+json"])
    if k < 0.5:
        return rng.choice(["3 abc 1 x", "DSSEv1 0  0 ", "0 ", " ", "  ", "1", "10", "é", "😀 1", "a b c"])
    n = rng.randrange(0, 12)
    return "".join(rng.choice(["D", " ", "0", "1", "9", "é", "a", "😀", "\n", "\x00"]) for _ in range(n))


def rand_payload(rng):
    k = rng.random()
    if k < 0.1:
        return b""
    if k < 0.5:
        n = rng.randrange(0, 20)
        return bytes(rng.choice(b"D 01239 \xff\x00a\n") for _ in range(n))
    return bytes(rng.randrange(256) for _ in range(rng.randrange(0, 64)))


def rand_frame(rng):
    """random decoder inputs with huge / overflowing / signed / malformed length fields"""
    lens = ["0", "1", "2", "3", "10", "99", "255", "4294967295", "4294967296", "18446744073709551615",
            "18446744073709551616", "99999999999999999999999", "-1", "+1", "+0", "01", "007", "", " ", "1e3",
            "0x10", "１", "9223372036854775807", "9223372036854775808", "900000000000000000", "100000000000000", "9000000000", "2147483648",
            "2147483647", "1073741824", "65536"]
    t = rand_type(rng)
    p = rand_payload(rng)
    l1 = rng.choice(lens + [str(len(t.encode()))] * 6)
    l2 = rng.choice(lens + [str(len(p))] * 6)
    parts = [b"DSSEv1", l1.encode(), t.encode(), l2.encode(), p]
    sep = rng.choice([b" ", b" ", b" ", b"", b"  ", b"\t"])
    b = sep.join(parts) if rng.random() < 0.2 else b" ".join(parts)
    k = rng.random()
    if k < 0.15 and b:
        b = b[:rng.randrange(len(b))]
    elif k < 0.25:
        b = b + rand_payload(rng)
    elif k < 0.3:
        b = b.replace(b"DSSEv1", rng.choice([b"DSSEv2", b"dssev1", b"", b"DSSEv1DSSEv1"]))
    return b


def isolate_crash(binpath, case, o, res):
    """a batch of decoder inputs (or pairs) killed the executor: find the input, reproduce it alone, report it"""
    singles = [{"op": "pae", "packs": [], "unpacks": [b]} for b in case.get("unpacks", [])] + \
              [{"op": "pae", "packs": [pr], "unpacks": []} for pr in case.get("packs", [])]
    obs = common.run_batch(binpath, singles, keys=False)
    found = False
    for c1, o1 in zip(singles, obs):
        if "crash" in o1:
            o2 = common.run_batch(binpath, [c1], keys=False)[0]
            if "crash" in o2:
                found = True
                what = "unpack of arbitrary bytes" if c1["unpacks"] else "pack/unpack of a pair"
                inp = bytes.fromhex(c1["unpacks"][0])[:80] if c1["unpacks"] else c1["packs"][0][0][:40]
                res.violate(f"{'unpack' if c1['unpacks'] else 'pack'}-kills-process:signal{o2['crash'].get('signal')}",
                            f"{what} ended the process (signal {o2['crash'].get('signal')}, status {o2['crash'].get('rc')}) instead of returning a pair or an error; "
                            f"input {inp!r}; reproduced in isolation", c1, o2, "pair or error")
        elif c1["unpacks"] and "unpacks" in o1:
            judge_unpack(c1["unpacks"][0], o1["unpacks"][0], res)
    if not found:
        res.inconclusive.append(f"executor failure not reproduced in isolation: {str(o)[:300]}")


def shard_random(binpath, seed, shard, n):
    rng = common.rng_for(seed, PROP, shard)
    res = common.Result()
    pairs = [(rand_type(rng), rand_payload(rng).hex()) for _ in range(n)]
    frames = [rand_frame(rng).hex() for _ in range(n)]
    B = 1000
    cases = []
    for i in range(0, n, B):
        cases.append({"op": "pae", "packs": [list(x) for x in pairs[i:i + B]], "unpacks": frames[i:i + B]})
    obs = common.run_batch(binpath, cases, keys=False)
    seen = {}
    for c, o in zip(cases, obs):
        if "packs" not in o:
            if "crash" in o:
                isolate_crash(binpath, c, o, res)
            else:
                res.inconclusive.append(f"executor failure: {str(o)[:300]}")
            continue
        for (t, p), po in zip(c["packs"], o["packs"]):
            res.note(["pair", t, p], bool(t) or bool(p), cls="random_pair")
            judge_pack(t, p, po, res, seen)
        for b, uo in zip(c["unpacks"], o["unpacks"]):
            r = judge_unpack(b, uo, res)
            res.note(["frame", b], True, cls="random_frame:" + r)
    if shard == 0:
        res.sample({"pair": pairs[0], "packed": obs[0]["packs"][0] if "packs" in obs[0] else None})
        res.sample({"frame": bytes.fromhex(frames[1]).decode("latin1"), "decoded": obs[0]["unpacks"][1] if "unpacks" in obs[0] else None})
    return res


def small_scope_pairs(binpath, res):
    talpha = ["D", " ", "0", "1", "é"]
    palpha = [b"D", b" ", b"0", b"1", b"\xc3", b"\xa9"]
    types = ["".join(x) for k in range(4) for x in itertools.product(talpha, repeat=k)]
    pays = [b"".join(x).hex() for k in range(4) for x in itertools.product(palpha, repeat=k)]
    pairs = [[t, p] for t in types for p in pays]
    B = 2500
    cases = [{"op": "pae", "packs": pairs[i:i + B], "unpacks": []} for i in range(0, len(pairs), B)]
    obs = common.run_sharded(binpath, cases, keys=False)
    seen = {}
    for c, o in zip(cases, obs):
        if "packs" not in o:
            res.inconclusive.append(f"executor failure: {str(o)[:300]}")
            return
        for (t, p), po in zip(c["packs"], o["packs"]):
            judge_pack(t, p, po, res, seen)
    res.evaluations += len(pairs)
    res.classes["small_scope_pairs"] += len(pairs)
    res.extras["small_scope_pairs_distinct_packings"] = len(seen)
    for t, p in pairs[1:2000:97]:
        res.distinct.add(common.h8(["pair", t, p]))


def length_sweep(binpath, res):
    """every type length 0..200 (ASCII, and ending in a two-byte character) x payload lengths at the decimal digit
    boundaries (0, 9, 10, 99, 100, 999, 1000), plus a few long payloads: the size of the header never matters"""
    pairs = []
    for n in range(0, 201):
        for tp in {"t" * n, ("t" * (n - 1) + "é") if n else ""}:
            for pl in (0, 9, 10, 99, 100, 999, 1000):
                pairs.append([tp, (b"p" * pl).hex()])
    for n in (0, 1, 49, 50, 51, 52, 63, 64, 65, 128, 200):
        for pl in (9999, 10000, 65535, 65536, 100000):
            pairs.append(["t" * n, (bytes([0x30 + (pl % 10)]) * pl).hex()])
    # types that merely begin with (or end like, or contain) a type the library knows about are types of their own
    known = ["link", "https://in-toto.io/Statement/v0.1", "application/vnd.in-toto+json", "https://in-toto.io/statement/v0.1"]
    for kt in known:
        for t2 in (kt, kt + "s", kt + " 2", kt + "0", kt + "/", kt + "\n", "x" + kt, kt[:-1], kt.upper(), kt + kt, " " + kt, kt + " "):
            for pay in (b"", b"payload", b"4 link"):
                pairs.append([t2, pay.hex()])
    # types that look like pieces of a format template
    for tok in ("{payload_len}", "{type_len}", "{}", "{0}", "{type}", "%s", "%d", "$1", "{payload_len}1", "1{payload_len}", "{{}}", "\\0", "{payload}"):
        for pay in (b"", b"abc", b"0123456789ab"):
            pairs.append([tok, pay.hex()])
    # payloads that are themselves (prefixes / extensions of) encodings, of the same type and of another: an envelope
    # inside an envelope is an ordinary payload
    nested = 0
    for t in ("link", "", "a b", "https://in-toto.io/Statement/v0.1", "é"):
        for inner_t in (t, "link", "layout", ""):
            for inner_p in (b"", b"hello", b"DSSEv1 ", ref_pack(inner_t, b"x")):
                inner = ref_pack(inner_t, inner_p)
                for pay in (inner, inner + b" tail", inner[:-1], b" " + inner, inner + inner, b"DSSEv1 ", b"DSSEv1 4 link 5 hello", inner.lower()):
                    pairs.append([t, pay.hex()])
                    nested += 1
    res.classes["payload_is_itself_an_encoding"] += nested
    # lengths whose decimal form has eight digits
    pairs.append(["link", (b"z" * 10_000_000).hex()])
    pairs.append(["t" * 10_000_001, b"p".hex()])
    # two types that differ only in their last character, same payload: distinct packings
    for n in (40, 50, 54, 60, 64, 70, 100, 150):
        pairs.append(["t" * n + "A", b"same".hex()])
        pairs.append(["t" * n + "B", b"same".hex()])
    B = 500
    cases = [{"op": "pae", "packs": pairs[i:i + B], "unpacks": []} for i in range(0, len(pairs), B)]
    obs = common.run_sharded(binpath, cases, keys=False)
    seen = {}
    for c, o in zip(cases, obs):
        if "packs" not in o:
            res.inconclusive.append(f"executor failure: {str(o)[:300]}")
            return
        for (t, p), po in zip(c["packs"], o["packs"]):
            judge_pack(t, p, po, res, seen)
    res.evaluations += len(pairs)
    res.classes["length_sweep_pairs"] += len(pairs)
    for t, p in pairs[::37]:
        res.distinct.add(common.h8(["pair", t[:200], p[:64]]))


def enum_decode(binpath, res, maxlen):
    alphabet = [0x20, 0x30, 0x31, 0x32, 0x39, 0x61, 0xFF]
    # split the space by the first symbol to use several processes
    cases = [{"op": "pae_enum", "prefix": b"DSSEv1 ".hex(), "alphabet": alphabet, "maxlen": 1}]
    for a in alphabet:
        cases.append({"op": "pae_enum", "prefix": (b"DSSEv1 " + bytes([a])).hex(), "alphabet": alphabet,
                      "maxlen": maxlen - 1})
    obs = common.run_sharded(binpath, cases, keys=False)
    total = 0
    for c, o in zip(cases, obs):
        if "n" not in o:
            res.inconclusive.append(f"executor failure in enumeration: {str(o)[:300]}")
            return
        total += o["n"]
        res.classes["enum_decode:ok"] += len(o["oks"])
        res.classes["enum_decode:err"] += o["nerr"]
        res.classes["enum_decode:panic"] += o["npanic"]
        judge_enum(c, o, res)
        for inp, pay, typ in o["oks"][:3]:
            res.sample({"decoded_input": bytes.fromhex(inp).decode("latin1"), "payload_hex": pay, "type": typ}, cap=6)
    res.evaluations += total
    res.extras["enumerated_decoder_inputs"] = total
    res.extras["enumerated_decoder_alphabet"] = "DSSEv1 + {space,0,1,2,9,a,0xFF}^<=%d" % maxlen


def main(ctx):
    res = common.Result()
    n = 3200 if not ctx.thorough else 500000
    for p in common.pmap(shard_random, [(ctx.bin, ctx.seed, s, n) for s in range(common.NPROC)]):
        res.merge(p)
    small_scope_pairs(ctx.bin, res)
    length_sweep(ctx.bin, res)
    enum_decode(ctx.bin, res, 7 if not ctx.thorough else 8)
    res.extras["exhaustive_subspaces"] = [
        "all (type,payload) with type in {D,space,0,1,é}^<=3 and payload in {D,space,0,1,0xC3,0xA9}^<=3: "
        "round trip + injectivity (all pairs compared through a dictionary)",
        "every byte string over {space,0,1,2,9,a,0xFF} up to the stated length appended to 'DSSEv1 ': decode outcome",
        "type lengths 0..200 x payload lengths at the decimal digit boundaries"]
    return common.finish(
        PROP, ctx.tier, ctx.seed, res, t0=ctx.t0,
        rule="random (type,payload) pairs incl. empty, framing characters, multi-byte types, frame-looking types; "
             "random decoder inputs with huge/overflowing/signed/malformed length fields; complete small scopes; "
             "non-trivial = pair with a non-empty component or any decoder input; distinct by SHA-256",
        assumptions=["the DSSE v1 PAE definition as transliterated in ref_pack()"],
        required=["random_pair", "random_frame:ok", "random_frame:err", "small_scope_pairs", "length_sweep_pairs", "payload_is_itself_an_encoding", "enum_decode:ok",
                  "enum_decode:err"],
        min_evals=50000)
