"""C10 — canonical JSON is deterministic, order-insensitive, loss-free and integer-only.

Monitor: the public canonicalisation function is run on many textual spellings of
generated JSON values; the oracle compares with an independent reference encoder
(Python json.dumps, minimal escapes, code-point key order), parses the output back,
and demands rejection of non-integer numbers.
"""
import json

import common
import jsongen as jg

PROP = "C10"

REJECT_TEXTS = ["1.5", "[1.5]", '{"a":0.25}', "1e-2", "[12345678901234567890.5]", "2.5e0", "-1.5",
                "1E400", "-1E400", "0.1", '{"k":[1,2,{"z":3.000001}]}', "123456789.123456789",
                "5e-1", "[[[[0.5]]]]",
                # fractions whose shortest rendering has an exponent and no decimal point
                "1e-7", "5e-324", "[7e-10]", "3e-300", "-2e-6", '{"n":1e-5}', "9e-16"]
# numbers that are integers mathematically but floats in the parser's data model, or beyond
# 64 bits: either rejected, or rendered *exactly* — never rounded or truncated
EXACT_OR_REJECT = ["18446744073709551616", "-9223372036854775809", "1" + "0" * 30,
                   "36893488147419103232", "-18446744073709551615", "1e2", "1.0", "-0", "0.0",
                   "1E2", "100e-2", "9007199254740993.0", "1e19", "12345678901234567890123",
                   # whole numbers whose shortest float rendering is a single digit and an exponent
                   "1e16", "1e20", "7e22", "-3e300", "100000000000000000000", "5e17", "2e19", "4E+18"]


def exact_int_text(t):
    """the mathematically exact integer denoted by a JSON number text, if it is one"""
    from fractions import Fraction
    try:
        f = Fraction(t)
    except ValueError:
        return None
    return int(f) if f.denominator == 1 else None


def routes_of(o):
    """the observation of the canonicalisation function, then those of the other public routes to the canonical
    encoding (the executor lists them only when one differs from the first)"""
    yield "Json::canonicalize", o
    for name, r in sorted((o.get("routes") or {}).items()):
        yield name, r


def judge_value(v, texts, outs, res, tag):
    """all spellings of v must give the reference encoding, which parses back to v"""
    for name, sel in (("Json::canonicalize", None), ("Json::to_writer", "Json::to_writer"), ("JsonPretty::canonicalize", "JsonPretty::canonicalize"),
                      ("Json::canonicalize(Json::serialize)", "Json::canonicalize(Json::serialize)"),
                      ("Json::to_writer(sink taking 3 bytes per call)", "Json::to_writer(sink taking 3 bytes per call)"),
                      ("Json::from_slice + Json::canonicalize", "Json::from_slice + Json::canonicalize"),
                      ("Json::from_reader + Json::canonicalize", "Json::from_reader + Json::canonicalize")):
        sub = [o if sel is None else o["routes"][sel] for o in outs if sel is None or "routes" in o]
        subt = [t for t, o in zip(texts, outs) if sel is None or "routes" in o]
        if sub:
            _judge_value(v, subt, sub, res, tag if sel is None else tag + ":" + name)


def _judge_value(v, texts, outs, res, tag):
    ref = jg.ref_canon(v)
    for t, o in zip(texts, outs):
        case = {"op": "canon", "texts": [t], "meta": {"kind": "value"}}
        if "ok" not in o:
            res.violate(f"canon-rejects-valid:{tag}", f"canonicalisation of an integer-only value failed: {o}",
                        case, o, {"canonical": ref})
            continue
        got = o["ok"]
        if got != ref:
            # classify: ordering / whitespace / escaping / number
            try:
                back = json.loads(got)
                kind = "bytes-differ-value-same" if jg.deep_eq(back, v) else "value-changed"
            except ValueError:
                kind = "output-not-json"
            res.violate(f"canon-differs-from-reference:{kind}",
                        f"canonical form differs from the reference encoder ({kind})",
                        case, o, {"canonical": ref})
            continue
        back = json.loads(got)
        if not jg.deep_eq(back, v):
            res.violate("canon-parse-back-differs", "canonical form does not parse back to the value",
                        case, o, {"value": v})


def judge(case, obs, res):
    """replay entry: re-judge one stored executor case"""
    kind = case.get("meta", {}).get("kind")
    outs = obs.get("res", [])
    if kind == "value":
        for t, o in zip(case["texts"], outs):
            try:
                v = json.loads(t)
            except ValueError:
                continue
            judge_value(v, [t], [o], res, "replay")
    elif kind == "reject":
        for t, o in zip(case["texts"], outs):
            judge_reject(t, o, res)
    elif kind == "exact_or_reject":
        for t, o in zip(case["texts"], outs):
            judge_exact(t, o, res)


def _numbers(v):
    if isinstance(v, (int, float)) and not isinstance(v, bool):
        yield v
    elif isinstance(v, list):
        for x in v:
            yield from _numbers(x)
    elif isinstance(v, dict):
        for x in v.values():
            yield from _numbers(x)


def judge_reject(t, o, res):
    for name, r in routes_of(o):
        if "ok" in r:
            res.violate("canon-accepts-non-integer" + ("" if name == "Json::canonicalize" else ":" + name),
                        f"a value containing a non-integer number was canonicalised to {r['ok']!r} by {name}",
                        {"op": "canon", "texts": [t], "meta": {"kind": "reject"}}, o, "error")


def judge_exact(t, o, res):
    for name, r in routes_of(o):
        _judge_exact(t, r, res, name)


def _judge_exact(t, o, res, name):
    if "ok" in o:
        # find the number in the text (the text is a bare number)
        exact = exact_int_text(t)
        if exact is None or o["ok"] != str(exact):
            res.violate("canon-rounds-number" + ("" if name == "Json::canonicalize" else ":" + name),
                        f"number {t} was rendered as {o['ok']!r} by {name} (neither exact nor rejected)",
                        {"op": "canon", "texts": [t], "meta": {"kind": "exact_or_reject"}}, o,
                        "exact decimal or error")


def shard_random(binpath, seed, shard, nvalues, nspell):
    rng = common.rng_for(seed, PROP, shard)
    res = common.Result()
    values = [jg.rand_value(rng) for _ in range(nvalues)]
    texts_per = []
    for v in values:
        ts = [jg.spell(v, rng, permute=False, ws=False, esc=False)]
        for _ in range(nspell - 1):
            ts.append(jg.spell(v, rng))
        texts_per.append(ts)
    flat = [t for ts in texts_per for t in ts]
    B = 400
    cases = [{"op": "canon", "texts": flat[i:i + B]} for i in range(0, len(flat), B)]
    obs = common.run_batch(binpath, cases, keys=False)
    outs = []
    for c, o in zip(cases, obs):
        if "res" not in o:
            res.inconclusive.append(f"executor failure in canon batch: {str(o)[:200]}")
            return res
        outs.extend(o["res"])
    pos = 0
    for v, ts in zip(values, texts_per):
        os_ = outs[pos:pos + len(ts)]
        pos += len(ts)
        nontrivial = isinstance(v, (list, dict, str)) and v not in ([], {}, "")
        res.note(v, nontrivial, cls=["value:" + type(v).__name__], n=len(ts))
        if len({json.dumps(o, sort_keys=True) for o in os_}) > 1:
            res.classes["spellings_disagree"] += 1
        res.classes["seven_public_routes_agree"] += sum(1 for o in os_ if "routes" not in o)
        judge_value(v, ts, os_, res, "random")
        if shard == 0:
            res.sample({"value": v, "spellings": ts[:3], "canonical": os_[0].get("ok")}, cap=3)
    return res


def unicode_sweep(binpath, res, full):
    """every Unicode scalar value as a one-character string and as a one-character key"""
    cps = [c for c in range(0x110000) if not (0xD800 <= c <= 0xDFFF)]
    if not full:
        # quick tier: all of the BMP below U+3000 plus every 61st scalar beyond and plane edges
        cps = [c for c in cps if c < 0x3000 or c % 61 == 0 or (c & 0xFFFF) in (0, 1, 0xFFFE, 0xFFFF)]
    B = 4096
    cases, metas = [], []
    for i in range(0, len(cps), B):
        chunk = [chr(c) for c in cps[i:i + B]]
        arr = chunk
        obj = {c: j for j, c in enumerate(chunk)}
        # ascii-escaped spelling: every character written as \uXXXX, members in reverse order
        t_arr = json.dumps(arr, ensure_ascii=True)
        t_obj = json.dumps(dict(reversed(list(obj.items()))), ensure_ascii=True)
        # raw spelling where JSON allows it
        t_arr2 = json.dumps(arr, ensure_ascii=False)
        cases.append({"op": "canon", "texts": [t_arr, t_obj, t_arr2]})
        metas.append((arr, obj))
    obs = common.run_sharded(binpath, cases, keys=False)
    n = 0
    for (arr, obj), c, o in zip(metas, cases, obs):
        if "res" not in o:
            res.inconclusive.append(f"executor failure in unicode sweep: {str(o)[:200]}")
            return
        r = o["res"]
        for v, out, t in ((arr, r[0], c["texts"][0]), (obj, r[1], c["texts"][1]), (arr, r[2], c["texts"][2])):
            ref = jg.ref_canon(v)
            if "routes" in out:
                res.violate("canon-routes-disagree", "the public routes to the canonical encoding disagree on a one-character string/key block",
                            {"op": "canon", "texts": [t], "meta": {"kind": "value"}}, {k: str(r)[:120] for k, r in out["routes"].items()}, ref[:200])
            if out.get("ok") != ref:
                # narrow down to the offending character
                bad = None
                got = out.get("ok")
                if got is not None:
                    try:
                        back = json.loads(got)
                        if isinstance(v, list) and isinstance(back, list):
                            for a, b in zip(v, back):
                                if a != b:
                                    bad = a
                                    break
                    except ValueError:
                        pass
                res.violate("canon-unicode-sweep", f"one-character string/key block differs from reference (first bad char {bad!r})",
                            {"op": "canon", "texts": [t], "meta": {"kind": "value"}}, {"ok": (got or "")[:200]}, ref[:200])
            else:
                back = json.loads(out["ok"])
                if not jg.deep_eq(back, v):
                    res.violate("canon-unicode-parse-back", "block does not parse back", None, None, None)
        n += len(arr)
    res.evaluations += 2 * n
    res.classes["unicode_scalars_as_string_and_key"] += n
    res.extras["unicode_sweep_complete"] = bool(full)
    res.extras["unicode_scalars_swept"] = n


def main(ctx):
    res = common.Result()
    nshards = common.NPROC
    per = 1250 if not ctx.thorough else 62500
    parts = common.pmap(shard_random, [(ctx.bin, ctx.seed, s, per, 4) for s in range(nshards)])
    for p in parts:
        res.merge(p)
    # rejection classes (complete list, every run) embedded at several depths
    rng = ctx.rng(999)
    rej, exa = [], []
    probes = []
    for t in REJECT_TEXTS:
        rej += [t, f'[{t}]', f'{{"a":{{"b":[1,{t}]}}}}']
        # history: a valid value canonicalised right after a rejected one (same process, same thread)
        probes += [f'[1,{{"a":"x"}},{t}]', '{"b":[1,2,3],"a":"x"}', f'{{"k":[1,{{"a":"x","b":[1,2,3]}},{t}]}}', '["after",{"z":0,"a":[]}]']
    for t in EXACT_OR_REJECT:
        exa.append(t)
    po = common.run_batch(ctx.bin, [{"op": "canon", "texts": probes}], keys=False)[0]
    if "res" in po:
        for t, r in zip(probes, po["res"]):
            try:
                v = json.loads(t)
            except ValueError:
                continue
            if any(isinstance(x, float) for x in _numbers(v)):
                judge_reject(t, r, res)
                continue
            res.note(["probe", t], True, cls="value_after_rejected_document")
            judge_value(v, [t], [r], res, "after-rejected-document")
    else:
        res.inconclusive.append("executor failure in history probes")
    o = common.run_batch(ctx.bin, [{"op": "canon", "texts": rej}, {"op": "canon", "texts": exa}], keys=False)
    if "res" not in o[0] or "res" not in o[1]:
        res.inconclusive.append("executor failure in rejection class")
    else:
        for t, r in zip(rej, o[0]["res"]):
            res.note(["rej", t], True, cls="reject_class")
            judge_reject(t, r, res)
            if "err" in r:
                res.classes["non_integer_rejected"] += 1
        for t, r in zip(exa, o[1]["res"]):
            res.note(["exact", t], True, cls="exact_or_reject_class")
            judge_exact(t, r, res)
            res.classes["exact_or_reject:" + ("rendered" if "ok" in r else "rejected")] += 1
    # nesting: every depth the parser accepts (and a little beyond), arrays / objects / alternating, empty and
    # non-empty innermost container
    nest = []
    for d in list(range(1, 131)):
        for shape in ("array", "object", "mixed"):
            for inner in ("[]", '{"z":[1,"x"],"a":0}', "7"):
                t = inner
                for i in range(d):
                    as_obj = shape == "object" or (shape == "mixed" and i % 2)
                    t = '{"k":' + t + "}" if as_obj else "[" + t + "]"
                nest.append((d, t))
    no = common.run_batch(ctx.bin, [{"op": "canon", "texts": [t for _, t in nest]}], keys=False)[0]
    if "res" not in no:
        res.inconclusive.append("executor failure in nesting sweep")
    else:
        deepest = 0
        for (d, t), r in zip(nest, no["res"]):
            if "parse_err" in r:
                continue        # beyond what the JSON reader accepts: not a value the function was given
            deepest = max(deepest, d)
            res.note(["nest", t], True, cls="nesting_depth_sweep")
            judge_value(json.loads(t), [t], [r], res, "nesting")
        res.extras["deepest_nesting_canonicalised"] = deepest
    unicode_sweep(ctx.bin, res, full=True)
    res.extras["exhaustive_subspaces"] = ["every Unicode scalar value as one-character string and as one-character key",
                                          "listed non-integer / out-of-range number spellings"]
    return common.finish(
        PROP, ctx.tier, ctx.seed, res, t0=ctx.t0,
        rule="random JSON values (depth<=5, hostile strings/keys, integers over the i64/u64 range) x 4 textual "
             "spellings each (member order, whitespace, escape spelling); non-trivial = non-empty string/array/object "
             "value, distinct by SHA-256 of the value; plus the complete one-character Unicode sweep and the "
             "number rejection classes",
        assumptions=["routes compared: Json::canonicalize, Json::to_writer (into a Vec and into a sink taking 3 bytes per call), JsonPretty::canonicalize, Json::canonicalize of Json::serialize, Json::from_slice / Json::from_reader of the text followed by Json::canonicalize",
                     "Python json.dumps(sort_keys, ensure_ascii=False, separators) is the reference encoder",
                     "serde_json is the parser that defines 'the same value' for a spelling"],
        required=["nesting_depth_sweep", "seven_public_routes_agree", "value:dict", "value:list", "value:str", "value:int", "non_integer_rejected", "value_after_rejected_document",
                  "unicode_scalars_as_string_and_key"],
        min_evals=10000)
