"""Builders of otherwise-valid verification scenarios ("ground truth by construction"):
every stage that is not the subject of the property under test is made trivially passing."""
import copy

import scen

STEP_NAMES = ["fetch", "build", "test", "package", "sign-off", "s0", "s1", "s2", "lint", "vcs.clone", "a b", "é-step"]


def chain_artifacts(i):
    """materials/products of step i in a simple chain: each step adds one product"""
    mats = {"src/a.c": scen.digest(1)}
    for j in range(i):
        mats[f"out/o{j}"] = scen.digest(10 + j)
    prods = dict(mats)
    prods[f"out/o{i}"] = scen.digest(10 + i)
    return mats, prods


def rules_for(rng, i, names):
    """rule lists that the chain artifacts satisfy"""
    k = rng.randrange(4)
    if k == 0:
        return [], []
    if k == 1:
        return [["ALLOW", "*"]], [["ALLOW", "*"]]
    if k == 2 and i > 0:
        return ([["MATCH", "*", "WITH", "PRODUCTS", "FROM", names[i - 1]], ["DISALLOW", "*"]],
                [["CREATE", f"out/o{i}"], ["ALLOW", "*"]])
    return [["REQUIRE", "src/a.c"], ["ALLOW", "src/*"], ["ALLOW", "out/*"], ["DISALLOW", "*"]], \
           [["CREATE", "out/*"], ["ALLOW", "*"]]


def valid_layout(rng, W, nsteps=None, functionaries=None, thresholds=None, readme="", expires=None,
                 names=None, all_keys_in_table=True, extra_table_keys=()):
    """returns (layout_doc, plan) where plan[i] = {"name","threshold","keys":[names authorised]}"""
    functionaries = functionaries or ["ed4", "ed5", "ed6", "edp2", "ec-b"]
    if nsteps is None:
        nsteps = rng.choice([1, 1, 2, 3])
    names = names or rng.sample(STEP_NAMES, nsteps)
    plan, steps = [], []
    for i in range(nsteps):
        thr = thresholds[i] if thresholds else rng.choice([1, 1, 1, 2])
        nk = max(thr, 1) + rng.choice([0, 0, 1])
        ks = rng.sample(functionaries, min(nk, len(functionaries)))
        mr, pr = rules_for(rng, i, names)
        steps.append(scen.mk_step(names[i], thr, [W.kid(k) for k in ks], ["cc", f"-o{i}"], mr, pr))
        plan.append({"name": names[i], "threshold": thr, "keys": ks})
    table = sorted(set(k for p in plan for k in p["keys"]) | set(extra_table_keys))
    if all_keys_in_table is True:
        pass
    layout = scen.mk_layout(W, table, steps, [], expires, readme)
    return layout, plan


def valid_links(rng, W, plan, extra_signers=0):
    """for each step: links by the first max(1,threshold) authorised keys, all agreeing.
    returns list of dicts {"step","key","doc","signers"}"""
    links = []
    for i, p in enumerate(plan):
        mats, prods = chain_artifacts(i)
        n = max(1, p["threshold"]) + extra_signers
        for k in p["keys"][:n]:
            doc = scen.mk_link(p["name"], copy.deepcopy(mats), copy.deepcopy(prods), ["cc", f"-o{i}"],
                               {"stdout": "", "stderr": "", "return-value": 0}, None)
            links.append({"step": p["name"], "key": k, "doc": doc, "signers": [k]})
    return links


def expected_summary(plan):
    m0, _ = chain_artifacts(0)
    _, pl = chain_artifacts(len(plan) - 1)
    return m0, pl


def assemble(W, layout_wire, links_wired, prefix=""):
    """files dict for the verify op from (link spec, wire) pairs"""
    files = {}
    for l, w in links_wired:
        fname = l.get("filename") or f"{l['step']}.{W.pfx(l.get('file_key', l['key']))}.link"
        files[prefix + fname] = scen.dumps(w)
    return files
