"""C11 — signed bytes and key-id preimages match the in-toto reference encoding.

Monitor: the library signs generated metadata (ed25519, deterministic); Python computes the
reference canonical bytes (OLPC canonical JSON) of the wire `signed` object; the library's
signature must equal the signature over the reference bytes and verify over them, and a signature
made directly over the reference bytes (by the library's raw signer, and by OpenSSL as a foreign
party) must be accepted by block verification.  Key ids are recomputed from the reference
encoding of the key description.
"""
import copy
import hashlib
import itertools
import json
import os
import shutil
import subprocess

import common
import docgen
import jsongen as jg
import scen
from props import c05

PROP = "C11"
ALPHA = ["\\", '"', "n", "\n", "\t", "\r", "\x01", "a", "é", " ", "😀", "\x7f"]


def char_class(s):
    cls = set()
    for c in s:
        o = ord(c)
        if c == "\n":
            cls.add("LF")
        elif c == "\t":
            cls.add("TAB")
        elif c == "\r":
            cls.add("CR")
        elif c in "\b\f":
            cls.add("BS/FF")
        elif o < 0x20:
            cls.add("C0")
        elif c == "\\":
            cls.add("backslash")
        elif c == '"':
            cls.add("quote")
        elif o == 0x7f:
            cls.add("DEL")
        elif o > 0x7f:
            cls.add("non-ascii")
    if "\\n" in s or "\\t" in s or "\\r" in s or "\\u" in s or "\\b" in s or "\\f" in s:
        cls.add("backslash-letter")
    return cls


def strings_in(doc):
    if isinstance(doc, str):
        yield doc
    elif isinstance(doc, list):
        for x in doc:
            yield from strings_in(x)
    elif isinstance(doc, dict):
        for k, v in doc.items():
            yield k
            yield from strings_in(v)


def blame(signed):
    """which character classes occur in the document (for the violation signature)"""
    cls = set()
    for s in strings_in(signed):
        cls |= char_class(s)
    culprit = cls & {"TAB", "CR", "C0", "BS/FF", "backslash-letter"}
    return "+".join(sorted(culprit)) or "+".join(sorted(cls)) or "plain"


def judge(case, obs, res):
    m = case.get("meta", {})
    k = m.get("kind")
    if k == "eq":
        # rawsig over reference bytes vs library signature
        if "ok" not in obs:
            res.inconclusive.append(f"raw signing failed: {str(obs)[:200]}")
            return
        if obs["ok"]["sig"] != m["libsig"]:
            res.violate("signed-bytes-differ-from-reference:" + m["blame"],
                        f"library ed25519 signature differs from the signature over the reference canonical bytes "
                        f"(characters: {m['blame']}); reference bytes {m['ref'][:300]!r}", case, obs, m["libsig"])
            return False
        return True
    if k == "libsig_over_ref":
        if "ok" not in obs:
            res.violate("library-signature-not-valid-over-reference:" + m["blame"],
                        f"signature made by the library does not verify over the reference bytes ({m['blame']})",
                        case, obs, "ok")
            return False
        return True
    if k == "nonref":
        # a signature made over some OTHER encoding of the same metadata (ordinary JSON escaping, an older release's mix)
        if obs.get("parse") == "ok" and obs.get("verify") == "ok":
            res.violate(f"non-reference-signature-accepted:{m['encoding']}:{m['blame']}",
                        f"a signature made over the {m['encoding']} encoding - not the reference bytes - of the metadata is accepted ({m['blame']})",
                        case, obs, "err")
            return False
        return True
    if k == "foreign":
        if obs.get("parse") != "ok" or obs.get("verify") != "ok":
            res.violate(f"reference-signature-rejected:{m['party']}:{m['blame']}",
                        f"a signature made by {m['party']} directly over the reference bytes is rejected "
                        f"({m['blame']}): {obs.get('verify')}", case, obs, "ok")
            return False
        return True
    return None


def ref_bytes(signed):
    return jg.olpc_canon(signed).encode()


def ref_keyid(pub):
    d = {"keytype": pub["keytype"], "scheme": pub["scheme"], "keyval": {"public": pub["keyval"]["public"]}}
    if "keyid_hash_algorithms" in pub:
        d["keyid_hash_algorithms"] = pub["keyid_hash_algorithms"]
    return hashlib.sha256(jg.olpc_canon(d).encode()).hexdigest()


def gen_docs(rng, W, tier_thorough, shard, nshards):
    """documents for this shard: (field-class, doc)"""
    docs = []
    strings = ["".join(x) for k in range(4) for x in itertools.product(ALPHA, repeat=k)]
    fields = c05.FIELDS if tier_thorough else ["name", "stdout", "extra_key", "env_val", "command"]
    lfields = c05.LAYOUT_FIELDS if tier_thorough else ["readme", "pattern"]
    allp = [(f, s, False) for f in fields for s in strings] + [(f, s, True) for f in lfields for s in strings]
    if not tier_thorough:
        # complete for length <= 2, sampled beyond
        allp = [p for p in allp if len(p[1]) <= 2] + rng.sample([p for p in allp if len(p[1]) > 2], 4000)
    for i, (f, s, is_layout) in enumerate(allp):
        if i % nshards != shard:
            continue
        d = c05.place_layout(W, f, s) if is_layout else c05.place(f, s)
        if d is not None:
            docs.append((f, d))
    # every Unicode scalar value once, in blocks of 256 inside captured output
    cps = [c for c in range(0x110000) if not (0xD800 <= c <= 0xDFFF)]
    step = 256
    blocks = list(range(0, len(cps), step))
    if not tier_thorough:
        blocks = blocks[:16] + rng.sample(blocks[16:], 120)
    for bi, b in enumerate(blocks):
        if bi % nshards != shard:
            continue
        s = "".join(chr(c) for c in cps[b:b + step])
        docs.append(("unicode_block", c05.place("stdout", s)))
    n = 400 if tier_thorough else 40
    for _ in range(n):
        docs.append(("random", docgen.rand_link(rng, 0.9) if rng.random() < 0.6 else docgen.rand_layout(rng, W, 0.9)))
    # texts of a layout that do not read back member for member (a key entry without its `keyid` / `private` members, the
    # expiry with a numeric offset, a member the model does not know): whatever text the builder is fed with, what is signed
    # is the reference encoding of the metadata the resulting block holds
    for _ in range(n // 2):
        d = docgen.rand_layout(rng, W, 0.3)
        for kid, k in d["keys"].items():
            r = rng.random()
            if r < 0.4:
                k.pop("keyid", None)
            elif r < 0.7 and "private" in k.get("keyval", {}):
                del k["keyval"]["private"]
        r = rng.random()
        if r < 0.4 and d["expires"].endswith("Z"):
            d["expires"] = d["expires"][:-1] + "+00:00"
        elif r < 0.7:
            d["x-unknown-member"] = {"a": [1, 2]}
        docs.append(("raw_variant", d))
    return docs


def shard_run(binpath, seed, sh, nshards, thorough):
    rng = common.rng_for(seed, PROP, sh)
    W = scen.World(binpath)
    res = common.Result()
    docs = gen_docs(rng, W, thorough, sh, nshards)
    # every construction path signs the same bytes: also the builder fed with the caller's own text of the document
    wires = scen.sign_all(binpath, [(d, ["ed0"], rng.choice(["raw_builder", "raw_builder_pretty"]) if f == "raw_variant" else
                                     rng.choice(["new", "new", "builder", "raw_builder", "raw_builder_pretty"])) for f, d in docs], nproc=1)
    cases = []
    pub = W.pub("ed0")
    for (f, d), w in zip(docs, wires):
        # the reference implementation signs the document it is given: for links that is the generated document itself
        # (the only documented addition of a parse is a null environment), not what the library hands back after parsing it
        src = w["signed"]
        if d.get("_type") == "link":
            src = copy.deepcopy(d)
            src.setdefault("environment", None)
            res.classes["reference_bytes_from_input_document"] += 1
        elif d.get("_type") == "layout" and all(k in d and k in w["signed"] for k in ("steps", "inspect", "readme")):
            # for layouts the documented additions of a parse concern the key table and the spelling of the expiry; the
            # steps, inspections and the readme are signed exactly as the document states them
            src = copy.deepcopy(w["signed"])
            for k in ("steps", "inspect", "readme"):
                src[k] = copy.deepcopy(d[k])
            res.classes["reference_bytes_from_input_layout_steps"] += 1
        ref = ref_bytes(src)
        b = blame(src)
        meta = {"field": f, "blame": b, "libsig": w["signatures"][0]["sig"], "ref": ref.decode()[:2000]}
        cases.append({"op": "rawsig", "key": "ed0", "msg": {"hex": ref.hex()}, "meta": dict(meta, kind="eq"),
                      "signed": src})
        cases.append({"op": "rawverify", "pub": pub, "msg": {"hex": ref.hex()}, "sig": w["signatures"][0],
                      "meta": dict(meta, kind="libsig_over_ref")})
    obs = common.run_batch(binpath, cases)
    # third pass: splice signatures made over the reference bytes by another key type
    foreign = []
    for i in range(0, len(cases), 2):
        c, o = cases[i], obs[i]
        if any(k in o for k in ("crash", "watchdog", "missing")):
            res.inconclusive.append(f"executor failure: {str(o)[:200]}")
            continue
        m = c["meta"]
        ok1 = judge(c, o, res)
        ok2 = judge(cases[i + 1], obs[i + 1], res)
        cls = [f"field:{m['field']}", "agrees" if ok1 and ok2 else "disagrees"] + ["chars:" + x for x in char_class("".join(strings_in(c["signed"])))]
        res.note([c["msg"]], True, cls=cls)
        if rng.random() < (0.15 if thorough else 0.25):
            foreign.append((c["signed"], m))
    if foreign:
        fk = [rng.choice(["ec-a", "ed1", "edp0", "rsa-2048-a", "rsa-2048-a512"]) for _ in foreign]
        sc = [{"op": "rawsig", "key": k, "msg": {"hex": ref_bytes(s).hex()}} for (s, _), k in zip(foreign, fk)]
        so = common.run_batch(binpath, sc)
        bc = []
        for (s, m), k, o in zip(foreign, fk, so):
            if "ok" not in o:
                res.inconclusive.append("raw signing failed")
                continue
            wire = {"signatures": [o["ok"]], "signed": s}
            bc.append({"op": "block", "text": json.dumps(wire, ensure_ascii=False), "threshold": 1, "auth": [W.pub(k)],
                       "meta": {"kind": "foreign", "party": "the library's raw signer (" + k.split("-")[0] + ")",
                                "blame": m["blame"], "field": m["field"]}})
        bo = common.run_batch(binpath, bc)
        for c, o in zip(bc, bo):
            r = judge(c, o, res)
            res.note([c["text"]], True, cls=["spliced_reference_signature:" + ("accepted" if r else "rejected")])
        # the converse: bytes that are NOT the reference encoding of the metadata do not verify as its signed bytes
        nr = []
        for (sdoc, m), k in zip(foreign, fk):
            refb = ref_bytes(sdoc)
            cj = jg.ref_canon(sdoc)                      # ordinary canonical JSON (all JSON escapes kept)
            for enc, b in (("json-escaped", cj.encode()), ("json-escaped-with-raw-line-feeds", cj.replace("\\n", "\n").encode()),
                           ("pretty", json.dumps(sdoc, indent=1, sort_keys=True).encode())):
                if b != refb:
                    nr.append((sdoc, m, k, enc, b))
        so2 = common.run_batch(binpath, [{"op": "rawsig", "key": k, "msg": {"hex": b.hex()}} for _, _, k, _, b in nr])
        bc2 = []
        for (sdoc, m, k, enc, b), o in zip(nr, so2):
            if "ok" in o:
                bc2.append({"op": "block", "text": json.dumps({"signatures": [o["ok"]], "signed": sdoc}, ensure_ascii=False), "threshold": 1,
                            "auth": [W.pub(k)], "meta": {"kind": "nonref", "encoding": enc, "blame": m["blame"], "field": m["field"]}})
        for c, o in zip(bc2, common.run_batch(binpath, bc2)):
            r = judge(c, o, res)
            res.note([c["text"], c["meta"]["encoding"]], True, cls=["signature_over_other_encoding:" + c["meta"]["encoding"] + ":" + ("rejected" if r else "accepted")])
    if sh == 0 and cases:
        res.sample({"signed": cases[0]["signed"], "reference_bytes": cases[0]["meta"]["ref"], "agree": obs[0].get("ok", {}).get("sig") == cases[0]["meta"]["libsig"]})
    return res


def keyid_variants(binpath, res):
    """key ids of the same material under other descriptions (hash-algorithm list absent / empty / other), obtained by
    parsing the JSON form; each must be the SHA-256 of the reference encoding of that very description"""
    W = scen.World(binpath)
    paths, wants = [], []
    for name, info in W.ki.items():
        for v in ("absent", "empty", "sha512", "three"):
            pub = copy_pub(info["pub"])
            pub.pop("keyid", None)
            if v == "absent":
                pub.pop("keyid_hash_algorithms", None)
            elif v == "empty":
                pub["keyid_hash_algorithms"] = []
            elif v == "sha512":
                pub["keyid_hash_algorithms"] = ["sha512"]
            else:
                pub["keyid_hash_algorithms"] = ["sha256", "sha512", "sha3-256"]
            paths.append({"how": "json", "value": pub})
            wants.append((name, v, ref_keyid(pub)))
    o = common.run_batch(binpath, [{"op": "keys12", "paths": paths}])[0]
    for p, (name, v, want), r in zip(paths, wants, o.get("paths", [])):
        if "ok" not in r:
            res.classes[f"keyid_variant_rejected:{v}"] += 1
            continue
        res.note(["keyid-variant", name, v], True, cls=f"keyid_variant:{v}")
        if r["ok"]["keyid"] != want:
            res.violate(f"keyid-differs-from-reference:hash-algorithm-list-{v}",
                        f"key {name} described with keyid_hash_algorithms {v}: id {r['ok']['keyid']}, reference encoding gives {want}",
                        {"op": "keys12", "paths": [p], "meta": {"kind": "keyid_variant"}}, r, want)


def copy_pub(p):
    import copy as _c
    return _c.deepcopy(p)


def keyids(binpath, res):
    W = scen.World(binpath)
    for name, info in W.ki.items():
        want = ref_keyid(info["pub"])
        res.note(["keyid", name], True, cls="keyid:" + info["pub"]["keytype"])
        if want != info["keyid"]:
            res.violate("keyid-differs-from-reference:" + info["pub"]["keytype"],
                        f"key id of {name} is {info['keyid']}, reference encoding gives {want}",
                        {"op": "keyinfo", "meta": {"kind": "keyid", "name": name}}, info, want)


# ---- OpenSSL as the foreign party -----------------------------------------------------------


def openssl(args, inp=None):
    return subprocess.run(["openssl"] + args, input=inp, stdout=subprocess.PIPE, stderr=subprocess.PIPE)


def ed_spki_pem(raw_hex):
    import base64
    der = bytes.fromhex("302a300506032b6570032100") + bytes.fromhex(raw_hex)
    return "-----BEGIN PUBLIC KEY-----\n" + base64.b64encode(der).decode() + "\n-----END PUBLIC KEY-----\n"


def openssl_interop(binpath, res, seed, n):
    if shutil.which("openssl") is None:
        res.classes["openssl_absent"] += 1
        return
    rng = common.rng_for(seed, PROP, 4242)
    W = scen.World(binpath)
    sd = common.scratch_dir()
    docs = [docgen.rand_link(rng, 0.9) for _ in range(n)] + [c05.place("stdout", s) for s in ("a\tb", "a\\nb", "x\r\n", "\x01", 'q"\\', "plain", "nl\n")]
    # (1) library-made signatures verified by OpenSSL over the reference bytes
    keys = [rng.choice(["ed0", "ed3", "ec-a", "ec-b", "rsa-2048-a", "rsa-2048-b512", "rsa-3072-a"]) for _ in docs]
    wires = scen.sign_all(binpath, [(d, [k], "new") for d, k in zip(docs, keys)], nproc=1)
    for d, k, w in zip(docs, keys, wires):
        ref = ref_bytes(w["signed"])
        msgf, sigf, pubf = sd / "msg", sd / "sig", sd / "pub.pem"
        msgf.write_bytes(ref)
        sigf.write_bytes(bytes.fromhex(w["signatures"][0]["sig"]))
        if k.startswith("ed"):
            pubf.write_text(ed_spki_pem(W.ki[k]["raw"]))
            p = openssl(["pkeyutl", "-verify", "-pubin", "-inkey", str(pubf), "-rawin", "-in", str(msgf), "-sigfile", str(sigf)])
        elif k.startswith("ec"):
            p = openssl(["dgst", "-sha256", "-verify", str(common.KEYS / f"{k}.spki.pem"), "-signature", str(sigf), str(msgf)])
        else:
            base = k.replace("512", "")
            dg = "-sha512" if k.endswith("512") else "-sha256"
            p = openssl(["dgst", dg, "-sigopt", "rsa_padding_mode:pss", "-sigopt", "rsa_pss_saltlen:digest", "-verify",
                         str(common.KEYS / f"{base}.spki.pem"), "-signature", str(sigf), str(msgf)])
        ok = p.returncode == 0
        b = blame(w["signed"])
        res.note(["ossl-verify", w["signatures"][0]["sig"]], True, cls="openssl_verifies_library_signature:" + ("yes" if ok else "no"))
        if not ok:
            res.violate(f"openssl-rejects-library-signature:{b}",
                        f"OpenSSL does not verify the library's {k} signature over the reference bytes ({b})",
                        {"op": "sign", "signed": d, "signers": [k], "via": "new", "meta": {"kind": "openssl_verify", "key": k}},
                        {"stderr": p.stderr.decode()[-200:], "stdout": p.stdout.decode()[-200:]}, "Verified OK")
    # (2) OpenSSL-made signatures over the reference bytes accepted by the library
    cases = []
    for i, d in enumerate(docs):
        kind = ["ed", "ec", "rsa"][i % 3]
        keyf = sd / "k.pem"
        if kind == "ed":
            openssl(["genpkey", "-algorithm", "ed25519", "-out", str(keyf)])
            raw = openssl(["pkey", "-in", str(keyf), "-pubout", "-outform", "der"]).stdout[-32:]
            pub = {"keytype": "ed25519", "scheme": "ed25519", "keyval": {"public": raw.hex()}}
        elif kind == "ec":
            openssl(["ecparam", "-name", "prime256v1", "-genkey", "-noout", "-out", str(keyf)])
            der = openssl(["ec", "-in", str(keyf), "-pubout", "-outform", "der"]).stdout
            pub = {"keytype": "ecdsa", "scheme": "ecdsa-sha2-nistp256", "keyval": {"public": der[-65:].hex()}}
        else:
            name = rng.choice(["rsa-2048-a", "rsa-2048-b"])
            shutil.copy(common.KEYS / f"{name}.pk8.der", sd / "k.der")
            openssl(["pkey", "-inform", "der", "-in", str(sd / "k.der"), "-out", str(keyf)])
            pub = W.pub(name)
            pub = {k: v for k, v in pub.items() if k != "keyid"}
        pub["keyid_hash_algorithms"] = ["sha256", "sha512"]
        kid = ref_keyid(pub)
        # the library normalises the document on parse, so sign what it would re-serialise: use the
        # library's own wire form of `signed` (obtained by a sign pass above)
        signed = wires[i]["signed"]
        ref = ref_bytes(signed)
        (sd / "msg").write_bytes(ref)
        if kind == "ed":
            p = openssl(["pkeyutl", "-sign", "-inkey", str(keyf), "-rawin", "-in", str(sd / "msg")])
        elif kind == "ec":
            p = openssl(["dgst", "-sha256", "-sign", str(keyf), str(sd / "msg")])
        else:
            p = openssl(["dgst", "-sha256", "-sigopt", "rsa_padding_mode:pss", "-sigopt", "rsa_pss_saltlen:digest",
                         "-sign", str(keyf), str(sd / "msg")])
        if p.returncode != 0:
            res.inconclusive.append("openssl signing failed: " + p.stderr.decode()[-200:])
            continue
        wire = {"signatures": [{"keyid": kid, "sig": p.stdout.hex()}], "signed": signed}
        cases.append({"op": "block", "text": json.dumps(wire, ensure_ascii=False), "threshold": 1, "auth": [pub],
                      "meta": {"kind": "foreign", "party": f"OpenSSL ({kind})", "blame": blame(signed), "field": "random"}})
    obs = common.run_batch(binpath, cases)
    for c, o in zip(cases, obs):
        if "auth_err" in o:
            res.violate("foreign-key-rejected", f"public key of the foreign party is not accepted: {o['auth_err']}", c, o, "ok")
            continue
        r = judge(c, o, res)
        res.note([c["text"]], True, cls="openssl_signature_over_reference:" + ("accepted" if r else "rejected"))


def refused_signing_history(binpath, res, seed):
    """one process: a signing attempt that the key refuses (an RSA key loaded under the ECDSA scheme: accepted at load time,
    refused when it is to sign), then ordinary signing and verification of other documents on the same thread.  What
    is signed and verified afterwards is the reference encoding of the document at hand, nothing left over"""
    rng = common.rng_for(seed, PROP, 901)
    W = scen.World(binpath)
    keys = dict(common.key_header())
    keys["refuses"] = {"kind": "pk8", "path": str(common.KEYS / "rsa-2048-a.pk8.der"), "scheme": "ecdsa-sha2-nistp256"}
    docs = [docgen.rand_link(rng, 0.5) for _ in range(8)]
    for d in docs:
        d.setdefault("environment", None)
    seq = []
    for i, d in enumerate(docs):
        via = rng.choice(["new", "builder", "raw_builder"])
        seq.append({"op": "sign", "signed": docs[(i + 1) % len(docs)], "signers": ["refuses"], "via": via, "meta": {"kind": "refused"}})
        if i % 2 == 0:
            seq.append({"op": "sign", "signed": d, "signers": ["ed0"], "via": rng.choice(["new", "builder"]), "meta": {"kind": "sign_after_refusal", "i": i}})
        else:
            seq.append({"op": "rawsig", "key": "ed0", "msg": {"hex": ref_bytes(d).hex()}, "meta": {"kind": "ref", "i": i}})
    obs = common.run_batch(binpath, seq, keys=keys)
    refused = sum(1 for c, o in zip(seq, obs) if c["meta"]["kind"] == "refused" and "ok" not in o and "panic" not in str(o))
    if refused == 0:
        res.inconclusive.append(f"the refusing key did not refuse: {str(obs[0])[:200]}")
        return
    res.classes["history:signing_attempt_refused_by_the_key"] += refused
    # second process-free step: reference signatures for the documents signed after a refusal
    want = common.run_batch(binpath, [{"op": "rawsig", "key": "ed0", "msg": {"hex": ref_bytes(c["signed"]).hex()}} for c in seq if c["meta"]["kind"] == "sign_after_refusal"])
    j = 0
    for c, o in zip(seq, obs):
        if c["meta"]["kind"] != "sign_after_refusal":
            continue
        w = want[j]
        j += 1
        if "ok" not in o or "ok" not in w:
            res.inconclusive.append(f"signing after a refused attempt failed: {str(o)[:200]}")
            continue
        res.note(["after-refusal", c["signed"]], True, cls="history:signed_after_a_refused_attempt")
        if o["ok"]["wire"]["signatures"][0]["sig"] != w["ok"]["sig"]:
            res.violate("signed-bytes-differ-from-reference:after-refused-signing-attempt",
                        "after a signing attempt that the key refused, the next document was not signed over its reference encoding",
                        c, {"library": o["ok"]["wire"]["signatures"][0]["sig"][:32], "reference": w["ok"]["sig"][:32]}, w["ok"]["sig"])
    # verification after a refusal: reference-signed blocks are accepted
    seq2 = []
    for i, d in enumerate(docs[1::2]):
        seq2.append({"op": "sign", "signed": docs[0], "signers": ["refuses"], "via": "new", "meta": {"kind": "refused"}})
    pre = [o["ok"] for c, o in zip(seq, obs) if c["meta"]["kind"] == "ref" and "ok" in o]
    seq3 = []
    for d, sg in zip(docs[1::2], pre):
        seq3.append({"op": "sign", "signed": docs[0], "signers": ["refuses"], "via": "builder", "meta": {"kind": "refused"}})
        seq3.append({"op": "block", "text": json.dumps({"signatures": [sg], "signed": d}, ensure_ascii=False), "threshold": 1, "auth": [W.pub("ed0")],
                     "meta": {"kind": "verify_after_refusal"}})
    for c, o in zip(seq3, common.run_batch(binpath, seq3, keys=keys)):
        if c["meta"]["kind"] != "verify_after_refusal":
            continue
        res.note(["verify-after-refusal", c["text"]], True, cls="history:verified_after_a_refused_attempt")
        if o.get("parse") != "ok" or o.get("verify") != "ok":
            res.violate("reference-signature-rejected:after-refused-signing-attempt",
                        f"after a signing attempt that the key refused, a signature over the reference bytes is rejected: {o.get('verify')}", c, o, "ok")


def main(ctx):
    res = common.Result()
    n = common.NPROC
    for p in common.pmap(shard_run, [(ctx.bin, ctx.seed, s, n, ctx.thorough) for s in range(n)]):
        res.merge(p)
    keyids(ctx.bin, res)
    keyid_variants(ctx.bin, res)
    openssl_interop(ctx.bin, res, ctx.seed, 24 if not ctx.thorough else 500)
    refused_signing_history(ctx.bin, res, ctx.seed)
    res.extras["exhaustive_subspaces"] = [
        "all strings of length <= 2 (quick) / <= 3 (thorough) over {backslash, quote, n, LF, TAB, CR, U+0001, a, é, U+2028, 😀, DEL} in each field class",
        "every Unicode scalar value once inside captured output (thorough; sampled blocks in quick)"]
    return common.finish(
        PROP, ctx.tier, ctx.seed, res, t0=ctx.t0,
        rule="metadata with every short string over a 12-character hostile alphabet in each string-bearing field class, "
             "blocks of consecutive Unicode scalar values, random captured-output-like text; each document: library "
             "signature vs signature over Python-computed OLPC canonical bytes, library signature verified over them, "
             "reference-bytes signatures (library raw signer, OpenSSL) spliced into the block; key ids of the pool "
             "recomputed from the reference encoding; every case non-trivial; distinct by SHA-256 of reference bytes",
        assumptions=["olpc_canon() transliterates securesystemslib's encode_canonical", "OpenSSL CLI is a correct foreign signer/verifier",
                     "ed25519 determinism"],
        required=["history:signing_attempt_refused_by_the_key", "history:signed_after_a_refused_attempt", "agrees", "chars:LF", "chars:TAB", "chars:backslash", "chars:quote", "chars:non-ascii", "keyid:rsa",
                  "keyid:ed25519", "keyid:ecdsa", "keyid_variant:empty", "keyid_variant:absent", "field:unicode_block", "field:random"],
        min_evals=3000)
