"""Documents of every public wire type, valid (from the schemas) and invalid (mutated)."""
import copy

import attgen
import docgen
import scen

HEX = "0123456789abcdef"


def fake_sigs(rng, W):
    out = []
    for _ in range(rng.choice([0, 1, 1, 2, 3])):
        kid = W.kid(rng.choice(list(W.ki))) if rng.random() < 0.7 else "".join(rng.choice(HEX) for _ in range(64))
        out.append({"keyid": kid, "sig": "".join(rng.choice(HEX) for _ in range(2 * rng.choice([0, 1, 64, 70, 256])))})
    return out


def gen_valid(rng, W):
    """returns (type, doc)"""
    t = rng.choice(["metablock", "metablock", "layout", "link", "pubkey", "signature", "keyid", "rule", "step", "inspection",
                    "statement", "predicate", "byproducts", "command", "wrapper"])
    if t in ("metablock", "wrapper"):
        signed = docgen.rand_link(rng, 0.5) if rng.random() < 0.5 else docgen.rand_layout(rng, W, 0.5)
        if t == "wrapper":
            return t, signed
        return t, {"signatures": fake_sigs(rng, W), "signed": signed}
    if t == "layout":
        return t, docgen.rand_layout(rng, W, 0.5)
    if t == "link":
        return t, docgen.rand_link(rng, 0.5)
    if t == "pubkey":
        p = W.pub(rng.choice(list(W.ki)))
        k = rng.random()
        if k < 0.3:
            p.pop("keyid", None)
        if k < 0.5:
            p["keyval"].pop("private", None)
        return t, p
    if t == "signature":
        return t, fake_sigs(rng, W)[0] if rng.random() < 0.0 else {"keyid": W.kid(rng.choice(list(W.ki))), "sig": "ab" * rng.choice([0, 1, 64])}
    if t == "keyid":
        return t, "".join(rng.choice(HEX) for _ in range(64)) if rng.random() < 0.7 else docgen.hs(rng, 1.0)
    if t == "rule":
        return t, docgen.rand_rule(rng, ("s0", "s1"), 0.3)
    if t == "step":
        l = docgen.rand_layout(rng, W, 0.5)
        return t, (l["steps"][0] if l["steps"] else scen.mk_step("s", 1, [], [], [], []))
    if t == "inspection":
        return t, scen.mk_inspection(docgen.hs(rng, 0.3), [docgen.hs(rng, 0.5) for _ in range(rng.choice([0, 1, 3]))],
                                      [docgen.rand_rule(rng) for _ in range(rng.choice([0, 1, 2]))],
                                      [docgen.rand_rule(rng) for _ in range(rng.choice([0, 1, 2]))])
    if t == "statement":
        return t, attgen.gen_naive(rng) if rng.random() < 0.4 else attgen.gen_v01(rng)[0]
    if t == "predicate":
        return t, attgen.gen_predicate(rng)[1]
    if t == "byproducts":
        return t, docgen.rand_byproducts(rng, 0.5)
    return "command", [docgen.hs(rng, 0.5) for _ in range(rng.choice([0, 1, 2, 4]))]


def gen_invalid(rng, W):
    t, d = gen_valid(rng, W)
    if isinstance(d, (dict, list)) and d:
        edits = list(scen.single_edits(d, rng, 3))
        if edits:
            return t, rng.choice(edits)[1]
    return t, {"unexpected": d}
