"""Crowd families: the same oracles as the ordinary generators, over populations far beyond the handful
of keys those use (tens of owners, functionaries, links, signature entries).  A count-dependent fault
(a window, a capacity, a chunk size, an early exit after N) needs a population that reaches the count.

Each family returns a common.Result whose violation signatures start with the property's own class names.
"""
import copy
import json

import common
import pipeline
import scen

SIZES = [5, 7, 8, 9, 12, 15, 16, 17, 24, 31, 32, 33, 40, 48]


def _key_names(rng, n):
    return rng.sample(common.CROWD_KEYS, n)


def _judge(res, case, obs, prop_cls):
    m = case["meta"]
    if scen.harness_failed(obs):
        res.inconclusive.append(f"executor failure: {str(obs)[:200]}")
        return
    v = scen.verdicts(obs)
    ok = bool(v) and all(x == "ok" for x in v)
    anyok = any(x == "ok" for x in v)
    if m["expect"] == "reject" and anyok:
        res.violate(f"{prop_cls}:{m['why']}", f"{sum(1 for x in v if x == 'ok')}/{len(v)} verifications succeeded although {m['reason']} "
                    f"(population {m['n']}, threshold {m.get('t')}, position {m.get('pos')})", case, obs, "reject")
    if m["expect"] == "accept" and not ok:
        res.overstrict += 1
        res.classes["crowd:positive_control_rejected"] += 1
        res.inconclusive.append(f"crowd positive control rejected: {obs['runs'][0].get('e')} ({m['why']}, n={m['n']})")
    res.note([case["layout"], sorted(case["files"].items()), case["caller_keys"]], True,
             cls=[f"crowd:{m['why']}", f"crowd:size:{m['n']}", "crowd:accepted" if ok else "crowd:rejected"], n=len(v))


def owners(binpath, seed, prop, sh, n_cases):
    """C01: N trusted owner keys; all signed -> accept; exactly one owner (at any rank of the id order / of the caller
    map / of the signature list) has no intact signature -> reject"""
    rng = common.rng_for(seed, prop, 7700 + sh)
    W = scen.World(binpath)
    res = common.Result()
    plans, reqs = [], []
    for i in range(n_cases):
        n = SIZES[(sh * n_cases + i) % len(SIZES)]
        own = _key_names(rng, n)
        fn = rng.choice(common.FAST_KEYS)
        steps = [scen.mk_step("build", 1, [W.kid(fn)], [], [["ALLOW", "*"]], [["ALLOW", "*"]])]
        layout = scen.mk_layout(W, [fn], steps, [], readme=f"crowd {i}")
        plans.append((own, fn, len(reqs)))
        reqs.append((layout, own, rng.choice(["new", "builder"])))
        reqs.append((pipeline.leaf_link("build", 0), [fn], "new"))
    wires = scen.sign_all(binpath, reqs, nproc=1)
    cases = []
    for own, fn, base in plans:
        lw, link = wires[base], wires[base + 1]
        files = {f"build.{W.pfx(fn)}.link": scen.dumps(link)}
        n = len(own)
        order = sorted(own, key=lambda k: W.kid(k))
        for variant in ("all", "missing", "flipped", "unsupplied_signature_of_outsider", "foreign"):
            w = copy.deepcopy(lw)
            pairs = [[W.kid(k), W.pub(k)] for k in own]
            rng.shuffle(pairs)
            pos = rng.choice([0, n - 1, rng.randrange(n), n // 2, 8 % n, 16 % n, 32 % n])
            victim = order[pos]
            expect, reason = "accept", ""
            if variant == "missing":
                w["signatures"] = [s for s in w["signatures"] if s["keyid"] != W.kid(victim)]
                expect, reason = "reject", f"trusted key #{pos} of {n} (by id) has no signature on the layout"
            elif variant == "flipped":
                for s in w["signatures"]:
                    if s["keyid"] == W.kid(victim):
                        s["sig"] = s["sig"][:-2] + ("00" if s["sig"][-2:] != "00" else "01")
                expect, reason = "reject", f"the signature of trusted key #{pos} of {n} (by id) is corrupted"
            elif variant == "foreign":
                # the victim's entry carries another owner's (valid) signature value
                donor = order[(pos + 1) % n]
                dv = [s["sig"] for s in w["signatures"] if s["keyid"] == W.kid(donor)][0]
                for s in w["signatures"]:
                    if s["keyid"] == W.kid(victim):
                        s["sig"] = dv
                expect, reason = "reject", f"the entry of trusted key #{pos} of {n} (by id) carries another owner's signature"
            elif variant == "unsupplied_signature_of_outsider":
                # one more trusted key that never signed, at a random place of the caller's map
                out = rng.choice([k for k in common.CROWD_KEYS if k not in own])
                pairs.insert(rng.randrange(len(pairs) + 1), [W.kid(out), W.pub(out)])
                expect, reason = "reject", f"one of {n + 1} trusted keys never signed the layout"
            if rng.random() < 0.5:
                rng.shuffle(w["signatures"])
            cases.append(scen.verify_case(w, pairs, files, reps=2,
                                          meta={"why": f"owners:{variant}", "expect": expect, "reason": reason, "n": n, "pos": pos}))
    obs = common.run_batch(binpath, cases)
    for c, o in zip(cases, obs):
        _judge(res, c, o, "accept")
    return res


def functionaries(binpath, seed, prop, sh, n_cases, flavour):
    """C02 (flavour 'authorised'): threshold t, t-1 links by authorised functionaries plus many valid links by keys the
    layout knows but the step does not authorise -> reject; C07 (flavour 'dissent'): threshold t, t..t+3 valid
    authorised links, one of them (any rank) dissents -> reject; both: the clean population -> accept"""
    rng = common.rng_for(seed, prop, 7800 + sh)
    W = scen.World(binpath)
    res = common.Result()
    plans, reqs = [], []
    for i in range(n_cases):
        t = SIZES[(sh * n_cases + i) % len(SIZES)]
        extra = rng.choice([0, 1, 3])
        auth = _key_names(rng, t + extra)
        rest = [k for k in common.CROWD_KEYS if k not in auth]
        outsiders = rng.sample(rest, min(len(rest), rng.choice([1, t // 2 + 1, 8])))
        steps = [scen.mk_step("build", t, [W.kid(k) for k in auth], [], [["ALLOW", "*"]], [["ALLOW", "*"]])]
        layout = scen.mk_layout(W, auth + outsiders, steps, [], readme=f"crowd {flavour} {i}")
        base = len(reqs)
        reqs.append((layout, ["ed0"], "new"))
        doc = pipeline.leaf_link("build", 0)
        for k in auth + outsiders:
            reqs.append((doc, [k], "new"))
        alt = copy.deepcopy(doc)
        kind = rng.choice(["digest", "extra", "missing", "path"])
        where = rng.choice(["materials", "products"])
        if kind == "digest":
            p = sorted(alt[where])[0]
            alt[where][p] = scen.digest(200 + i % 50)
        elif kind == "extra":
            alt[where]["zz/extra"] = scen.digest(77)
        elif kind == "missing":
            del alt[where][sorted(alt[where])[-1]]
        else:
            p = sorted(alt[where])[-1]
            alt[where][p + ".x"] = alt[where].pop(p)
        for k in auth:
            reqs.append((alt, [k], "new"))
        plans.append((t, auth, outsiders, base, kind, where))
    wires = scen.sign_all(binpath, reqs, nproc=1)
    cases = []
    keys = [[W.kid("ed0"), W.pub("ed0")]]
    for t, auth, outsiders, base, kind, where in plans:
        lw = wires[base]
        good = {k: wires[base + 1 + j] for j, k in enumerate(auth + outsiders)}
        alt = {k: wires[base + 1 + len(auth) + len(outsiders) + j] for j, k in enumerate(auth)}
        order = sorted(auth, key=lambda k: W.kid(k))
        n = len(auth)
        fname = lambda k: f"build.{W.pfx(k)}.link"
        if flavour == "authorised":
            present = rng.sample(auth, t - 1)
            files = {fname(k): scen.dumps(good[k]) for k in present + outsiders}
            cases.append(scen.verify_case(lw, keys, files, reps=2, meta={
                "why": "authorised:one_short_plus_outsiders", "expect": "reject", "n": n, "t": t, "pos": len(outsiders),
                "reason": f"only {t - 1} of the {t} required links are signed by authorised functionaries (the other {len(outsiders)} valid links are by keys the step does not authorise)"}))
            # an outsider's link filed under the name of the missing authorised functionary
            absent = [k for k in auth if k not in present]
            f2 = dict(files)
            f2[fname(absent[0])] = scen.dumps(good[outsiders[0]])
            cases.append(scen.verify_case(lw, keys, f2, reps=2, meta={
                "why": "authorised:outsider_link_under_authorised_name", "expect": "reject", "n": n, "t": t, "pos": 0,
                "reason": f"only {t - 1} of the {t} required links are signed by authorised functionaries (one more file carries an authorised name but an outsider's signature)"}))
            files = {fname(k): scen.dumps(good[k]) for k in rng.sample(auth, t) + outsiders}
            cases.append(scen.verify_case(lw, keys, files, reps=1, meta={
                "why": "authorised:exactly_threshold", "expect": "accept", "n": n, "t": t, "reason": ""}))
        else:
            pos = rng.choice([0, n - 1, rng.randrange(n), n // 2, 8 % n, 16 % n, 32 % n, t % n, (t - 1) % n])
            d = order[pos]
            files = {fname(k): scen.dumps(alt[k] if k == d else good[k]) for k in auth}
            cases.append(scen.verify_case(lw, keys, files, reps=2, meta={
                "why": f"dissent:{kind}:{where}", "expect": "reject", "n": n, "t": t, "pos": pos,
                "reason": f"link #{pos} of {n} (by key id) of the threshold-{t} step differs from the others in its {where} ({kind})"}))
            files = {fname(k): scen.dumps(good[k]) for k in auth}
            cases.append(scen.verify_case(lw, keys, files, reps=1, meta={
                "why": "dissent:none", "expect": "accept", "n": n, "t": t, "reason": ""}))
            # everybody reports the alternative: agreement again
            files = {fname(k): scen.dumps(alt[k]) for k in auth}
            cases.append(scen.verify_case(lw, keys, files, reps=1, meta={
                "why": "dissent:none_alt", "expect": "accept", "n": n, "t": t, "reason": ""}))
    obs = common.run_batch(binpath, cases)
    for c, o in zip(cases, obs):
        _judge(res, c, o, "accept" if flavour == "authorised" else "accept-with-dissent")
    return res


def signature_lists(binpath, seed, prop, sh, n_cases, judge):
    """C04: Metablock::verify over lists of tens of entries: v distinct authorised keys have a valid entry (others:
    corrupted, over other content, by unauthorised keys, duplicates of valid ones); threshold v -> Ok, v+1 -> Err"""
    rng = common.rng_for(seed, prop, 7900 + sh)
    W = scen.World(binpath)
    res = common.Result()
    plans, reqs = [], []
    for i in range(n_cases):
        n = SIZES[(sh * n_cases + i) % len(SIZES)]
        pool = _key_names(rng, n)
        content = scen.mk_link(f"crowd{i}", {"a": scen.digest(i % 250)}, {"b": scen.digest(3)}, ["c"], {"return-value": 0})
        other = copy.deepcopy(content)
        other["name"] += "-other"
        plans.append((pool, content, len(reqs)))
        reqs.append((content, pool, "new"))
        reqs.append((other, pool, "new"))
    wires = scen.sign_all(binpath, reqs, nproc=1)
    cases = []
    for pool, content, base in plans:
        sig = {s["keyid"]: s["sig"] for s in wires[base]["signatures"]}
        sigo = {s["keyid"]: s["sig"] for s in wires[base + 1]["signatures"]}
        n = len(pool)
        nauth = rng.choice([n, n - 1, max(1, n // 2)])
        auth = rng.sample(pool, nauth)
        entries, validk = [], set()
        for k in pool:
            kid = W.kid(k)
            kind = rng.choice(["valid", "valid", "valid", "flipped", "other_content", "absent", "dup"])
            if kind == "valid":
                entries.append({"keyid": kid, "sig": sig[kid]})
                if k in auth:
                    validk.add(k)
            elif kind == "dup":
                entries.append({"keyid": kid, "sig": sig[kid]})
                entries.append({"keyid": kid, "sig": sig[kid]})
                if k in auth:
                    validk.add(k)
            elif kind == "flipped":
                s = sig[kid]
                entries.append({"keyid": kid, "sig": s[:10] + ("0" if s[10] != "0" else "1") + s[11:]})
            elif kind == "other_content":
                entries.append({"keyid": kid, "sig": sigo[kid]})
        rng.shuffle(entries)
        v = len(validk)
        once = len({e["keyid"] for e in entries}) == len(entries)
        text = json.dumps({"signatures": entries, "signed": content})
        for t in sorted({v, v + 1, max(1, v - 1), 1}):
            cases.append({"op": "block", "text": text, "threshold": t, "auth": [W.pub(k) for k in auth],
                          "meta": {"n": n, "v": v, "t": t, "once": once, "why": f"crowd:{len(entries)}_entries", "entries": len(entries)}})
    obs = common.run_batch(binpath, cases)
    for c, o in zip(cases, obs):
        m = c["meta"]
        ok = judge(c, o, res)
        if ok is None:
            continue
        res.note([c["text"], m["t"]], True, cls=[f"crowd:size:{m['n']}", "crowd:block:" + ("ok" if ok else "err")], n=1)
    return res
