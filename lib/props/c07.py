"""C07 — multi-party steps require identical recorded artifacts from all signers.

Monitor: steps with threshold >= 2 and threshold..threshold+2 valid authorised links; one link may
dissent in exactly one aspect of materials or products; the dissenting key is placed at the
smallest / middle / largest key id so that every choice of reference link is exercised; each
scenario is verified 8 times (fresh maps).  Violation = Ok with dissent present.
"""
import copy

import common
import crowd
import pipeline
import scen

PROP = "C07"
POOL = ["ed1", "ed2", "ed3", "ed4", "ed5", "ed6", "edp1", "edp2", "ec-b", "ec-c"]
DISSENT = ["none", "none", "byproducts_only", "command_only", "path", "digest", "alg", "extra", "missing", "second_alg",
           "digest_truncated", "digest_extended", "digest_last_bit", "path_respelled", "extra_respelled_entry",
           "extra_without_digests", "digests_emptied"]


def judge(case, obs, res):
    m = case["meta"]
    if scen.harness_failed(obs):
        res.inconclusive.append(f"executor failure: {str(obs)[:200]}")
        return None
    v = scen.verdicts(obs)
    oks = sum(1 for x in v if x == "ok")
    if m["dissent_in_artifacts"] and oks:
        res.violate(f"accept-with-dissent:{m['dissent']}:{m['where']}",
                    f"{oks}/{len(v)} verifications succeeded although one of {m['k']} valid links of the threshold-"
                    f"{m['threshold']} step differs in {m['where']} ({m['dissent']}); dissenter key-id rank {m['rank']}",
                    case, obs, "reject")
    if (not m["dissent_in_artifacts"]) and oks != len(v):
        res.inconclusive.append(f"positive control rejected: {obs['runs'][0].get('e')}")
    return oks


def dissent_doc(doc, kind, where, rng):
    d = copy.deepcopy(doc)
    tgt = d[where]
    paths = sorted(tgt)
    if kind == "path":
        p = rng.choice(paths)
        tgt[p + "x"] = tgt.pop(p)
    elif kind == "digest":
        p = rng.choice(paths)
        tgt[p] = scen.digest(0xEE)
    elif kind == "path_respelled":
        # the same location under a lexically different path: a different recorded path
        p = rng.choice(paths)
        tgt[rng.choice(scen.path_respellings(p))] = tgt.pop(p)
    elif kind == "extra_respelled_entry":
        # an additional entry whose path is another spelling of an existing one, with another digest
        p = rng.choice(paths)
        tgt[rng.choice(scen.path_respellings(p))] = scen.digest(0x5A)
    elif kind == "digest_truncated":
        p = rng.choice(paths)
        a, h = list(tgt[p].items())[0]
        tgt[p] = {a: h[:2 * rng.choice([0, 1, 4, 16, 31])]}
    elif kind == "digest_extended":
        p = rng.choice(paths)
        a, h = list(tgt[p].items())[0]
        tgt[p] = {a: h + "00"}
    elif kind == "digest_last_bit":
        p = rng.choice(paths)
        a, h = list(tgt[p].items())[0]
        tgt[p] = {a: h[:-1] + ("0" if h[-1] != "0" else "1")}
    elif kind == "alg":
        p = rng.choice(paths)
        h = list(tgt[p].values())[0]
        tgt[p] = {"sha512": h + h}
    elif kind == "second_alg":
        p = rng.choice(paths)
        tgt[p] = dict(tgt[p], sha512="ab" * 64)
    elif kind == "extra":
        tgt["extra/file"] = scen.digest(0x77)
    elif kind == "extra_without_digests":
        # an additional artifact recorded without any digest is an additional artifact all the same
        tgt[rng.choice(["NOTICE", "extra/file", "out/zz"])] = {}
    elif kind == "digests_emptied":
        tgt[rng.choice(paths)] = {}
    elif kind == "missing":
        del tgt[rng.choice(paths)]
    elif kind == "byproducts_only":
        d["byproducts"]["stdout"] = "different output"
    elif kind == "command_only":
        d["command"] = ["other", "command"]
    return d


def shard(binpath, seed, sh, n):
    rng = common.rng_for(seed, PROP, sh)
    W = scen.World(binpath)
    res = common.Result()
    scs, reqs = [], []
    for i in range(n):
        thr = rng.choice([2, 2, 3, 4])
        k = thr + rng.choice([0, 0, 1, 2])
        keys = rng.sample(POOL, k)
        nsteps = rng.choice([1, 2])
        si = rng.randrange(nsteps)       # the multi-party step
        names = rng.sample(pipeline.STEP_NAMES[:9], nsteps)
        steps = []
        for j, nm in enumerate(names):
            if j == si:
                steps.append(scen.mk_step(nm, thr, [W.kid(x) for x in keys], [], [["ALLOW", "*"]], [["ALLOW", "*"]]))
            else:
                steps.append(scen.mk_step(nm, 1, [W.kid(keys[0])], [], [["ALLOW", "*"]], [["ALLOW", "*"]]))
        layout = scen.mk_layout(W, keys, steps, [])
        kind = rng.choice(DISSENT)
        where = rng.choice(["materials", "products"])
        order = sorted(keys, key=lambda x: W.kid(x))
        rank = rng.choice(["smallest", "largest", "middle"])
        dk = order[0] if rank == "smallest" else order[-1] if rank == "largest" else order[len(order) // 2]
        base = len(reqs)
        reqs.append((layout, ["ed0"], "new"))
        links = []
        cosigned = False
        for j, nm in enumerate(names):
            mats, prods = pipeline.chain_artifacts(j)
            doc = scen.mk_link(nm, mats, prods, ["c"], {"stdout": "o", "return-value": 0}, None)
            # the dissenter may also have co-signed the (agreeing) link file of another functionary: his own,
            # differing link is evidence all the same
            holder = rng.choice([x for x in keys if x != dk]) if (j == si and kind != "none" and rng.random() < 0.35) else None
            if holder:
                cosigned = True
            for x in (keys if j == si else keys[:1]):
                d = doc
                if j == si and x == dk and kind != "none":
                    d = dissent_doc(doc, kind, where, rng)
                links.append({"step": nm, "key": x, "req": len(reqs)})
                reqs.append((d, [x, dk] if x == holder and rng.random() < 0.5 else [dk, x] if x == holder else [x], "new"))
        scs.append({"base": base, "links": links, "meta": {
            "threshold": thr, "k": k, "dissent": kind, "where": where if kind not in ("none", "byproducts_only", "command_only") else "-",
            "rank": rank, "cosigned": cosigned, "dissent_in_artifacts": kind not in ("none", "byproducts_only", "command_only")}, "ids": [W.kid(x) for x in keys]})
    wires = scen.sign_all(binpath, reqs, nproc=1)
    cases = []
    for sc in scs:
        # a functionary may have signed his link twice (the same entry appended again): still one valid link of his
        if rng.random() < 0.3:
            ref_signed = wires[sc["links"][0]["req"]]["signed"]
            dis = [l for l in sc["links"] if wires[l["req"]]["signed"] != ref_signed] or sc["links"]
            l = rng.choice(dis)
            w = copy.deepcopy(wires[l["req"]])
            w["signatures"].append(copy.deepcopy(w["signatures"][-1]))
            wires[l["req"]] = w
            sc["meta"]["signed_twice"] = True
        files = {f"{l['step']}.{W.pfx(l['key'])}.link": scen.dumps(wires[l["req"]]) for l in sc["links"]}
        # a link directory assembled from per-functionary drop directories: some link files are symbolic links to regular
        # files kept elsewhere (a file is a file however it got its name)
        r = rng.random()
        if r < 0.35:
            names = sorted(files)
            dis = [f"{l['step']}.{W.pfx(l['key'])}.link" for l in sc["links"] if wires[l["req"]]["signed"] != wires[sc["links"][0]["req"]]["signed"]]
            chosen = dis[:1] if (dis and r < 0.25) else [rng.choice(names)] if r < 0.3 else names
            for nm in chosen:
                files["drop/" + nm + ".data"] = files[nm]
                files[nm] = {"symlink": "drop/" + nm + ".data"}
            sc["meta"]["symlinked"] = "dissenter" if (dis and chosen == dis[:1]) else "one" if len(chosen) == 1 else "all"
        cases.append(scen.verify_case(wires[sc["base"]], [[W.kid("ed0"), W.pub("ed0")]], files, reps=8,
                                      probe_ids=sc["ids"], meta=sc["meta"]))
    obs = common.run_batch(binpath, cases)
    for c, o in zip(cases, obs):
        m = c["meta"]
        oks = judge(c, o, res)
        if oks is None:
            continue
        cls = [f"dissent:{m['dissent']}", f"where:{m['where']}", f"rank:{m['rank']}", f"threshold:{m['threshold']}",
               "surplus_links" if m["k"] > m["threshold"] else "exact_links",
               "accepted" if oks else "rejected"]
        if not m["dissent_in_artifacts"] and oks:
            cls.append("positive_control_accepted")
        if m.get("signed_twice"):
            cls.append("a_link_carries_its_signature_twice:" + ("accepted" if oks else "rejected"))
        if m.get("symlinked"):
            cls.append(f"link_files_are_symlinks:{m['symlinked']}:" + ("accepted" if oks else "rejected"))
        if m.get("cosigned"):
            cls.append("dissenter_cosigned_another_link:" + ("dissent" if m["dissent_in_artifacts"] else "no_artifact_dissent"))
        res.note([c["layout"], sorted((k, str(v)) for k, v in c["files"].items())], True, cls=cls, n=len(o["runs"]))
        res.extras["distinct_iteration_orders_seen_max"] = max(res.extras.get("distinct_iteration_orders_seen_max", 0), o.get("distinct_orders", 0))
    if sh == 0:
        for c, o in list(zip(cases, obs))[:3]:
            res.sample({"meta": c["meta"], "verdicts": scen.verdicts(o), "error": o["runs"][0].get("e"), "files": sorted(c["files"])})
    return res


def delegated(binpath, seed, sh, n):
    """a threshold-2 step whose two functionaries each file a sub-layout with the very same content (each under its own
    signature); the evidence in their two dedicated directories agrees or differs.  What a functionary contributes is the
    summary of *his* directory: differing summaries are dissent"""
    rng = common.rng_for(seed, PROP, 3000 + sh)
    W = scen.World(binpath)
    res = common.Result()
    reqs, plans = [], []
    for i in range(n):
        f1, f2, ki = rng.sample(["ed4", "ed5", "ed6", "edp2", "ec-b"], 3)
        kind = rng.choice(["none", "digest", "extra", "missing"])
        inner = scen.mk_layout(W, [ki], [scen.mk_step("inner", 1, [W.kid(ki)], [], [["ALLOW", "*"]], [["ALLOW", "*"]])], [])
        top = scen.mk_layout(W, [f1, f2], [scen.mk_step("build", 2, [W.kid(f1), W.kid(f2)], [], [["ALLOW", "*"]], [["ALLOW", "*"]])], [])
        l1 = pipeline.leaf_link("inner", 0)
        l2 = copy.deepcopy(l1)
        if kind == "digest":
            l2["products"][sorted(l2["products"])[0]] = scen.digest(0xEE)
        elif kind == "extra":
            l2["products"]["extra/file"] = scen.digest(0x77)
        elif kind == "missing":
            del l2["materials"][sorted(l2["materials"])[0]]
        if rng.random() < 0.5:
            l1, l2 = l2, l1
        plans.append((f1, f2, ki, kind, len(reqs)))
        reqs += [(top, ["ed0"], "new"), (inner, [f1], "new"), (inner, [f2], "new"), (l1, [ki], "new"), (l2, [ki], "new")]
    # a multi-party step INSIDE a sub-layout, filed by a surplus functionary of an outer step that has enough agreeing plain
    # links without him: dissent between the inner links makes the sub-layout fail, and with it the verification
    plans2 = []
    for i in range(max(4, n // 2)):
        f1, f2, f3, ki, kj = rng.sample(["ed4", "ed5", "ed6", "edp2", "ec-b", "ed1", "ed2"], 5)
        kind = rng.choice(["none", "digest", "extra"])
        inner = scen.mk_layout(W, [ki, kj], [scen.mk_step("inner", 2, [W.kid(ki), W.kid(kj)], [], [["ALLOW", "*"]], [["ALLOW", "*"]])], [])
        top = scen.mk_layout(W, [f1, f2, f3], [scen.mk_step("build", 2, [W.kid(f1), W.kid(f2), W.kid(f3)], [], [["ALLOW", "*"]], [["ALLOW", "*"]])], [])
        plain = pipeline.leaf_link("build", 0)
        l1 = pipeline.leaf_link("inner", 0)
        l2 = copy.deepcopy(l1)
        if kind == "digest":
            l2["products"][sorted(l2["products"])[0]] = scen.digest(0xEE)
        elif kind == "extra":
            l2["materials"]["extra/file"] = scen.digest(0x77)
        plans2.append((f1, f2, f3, ki, kj, kind, len(reqs)))
        reqs += [(top, ["ed0"], "new"), (plain, [f1], "new"), (plain, [f2], "new"), (inner, [f3], "new"), (l1, [ki], "new"), (l2, [kj], "new")]
    wires = scen.sign_all(binpath, reqs, nproc=1)
    cases = []
    for f1, f2, f3, ki, kj, kind, b in plans2:
        d = f"build.{W.pfx(f3)}"
        files = {f"build.{W.pfx(f1)}.link": scen.dumps(wires[b + 1]), f"build.{W.pfx(f2)}.link": scen.dumps(wires[b + 2]),
                 f"{d}.link": scen.dumps(wires[b + 3]), f"{d}/inner.{W.pfx(ki)}.link": scen.dumps(wires[b + 4]),
                 f"{d}/inner.{W.pfx(kj)}.link": scen.dumps(wires[b + 5])}
        # the sub-layout's summary (inner materials/products) equals the plain links' artifacts when the inner links agree
        cases.append(scen.verify_case(wires[b], [[W.kid("ed0"), W.pub("ed0")]], files, reps=4,
                                      meta={"threshold": 2, "k": 3, "dissent": "inner_step_of_surplus_sublayout:" + kind, "where": "inner links", "rank": "-",
                                            "dissent_in_artifacts": kind != "none"}))
    for f1, f2, ki, kind, b in plans:
        files = {f"build.{W.pfx(f1)}.link": scen.dumps(wires[b + 1]), f"build.{W.pfx(f2)}.link": scen.dumps(wires[b + 2]),
                 f"build.{W.pfx(f1)}/inner.{W.pfx(ki)}.link": scen.dumps(wires[b + 3]),
                 f"build.{W.pfx(f2)}/inner.{W.pfx(ki)}.link": scen.dumps(wires[b + 4])}
        cases.append(scen.verify_case(wires[b], [[W.kid("ed0"), W.pub("ed0")]], files, reps=4,
                                      meta={"threshold": 2, "k": 2, "dissent": "delegated:" + kind, "where": "summary", "rank": "-",
                                            "dissent_in_artifacts": kind != "none"}))
    obs = common.run_batch(binpath, cases)
    for c, o in zip(cases, obs):
        oks = judge(c, o, res)
        if oks is None:
            continue
        m = c["meta"]
        res.note([c["layout"], sorted(c["files"].items())], True, cls=[f"dissent:{m['dissent']}", "accepted" if oks else "rejected"], n=len(o["runs"]))
    return res


def main(ctx):
    res = common.Result()
    n = 40 if not ctx.thorough else 1500
    for p in common.pmap(shard, [(ctx.bin, ctx.seed, s, n) for s in range(common.NPROC)]):
        m = res.extras.get("distinct_iteration_orders_seen_max", 0)
        res.merge(p)
        res.extras["distinct_iteration_orders_seen_max"] = max(m, p.extras.get("distinct_iteration_orders_seen_max", 0))
    for p in common.pmap(crowd.functionaries, [(ctx.bin, ctx.seed, PROP, s, 7 if not ctx.thorough else 42, "dissent") for s in range(4 if not ctx.thorough else common.NPROC)]):
        res.merge(p)
    for p in common.pmap(delegated, [(ctx.bin, ctx.seed, s, 12 if not ctx.thorough else 200) for s in range(4)]):
        res.merge(p)
    return common.finish(
        PROP, ctx.tier, ctx.seed, res, t0=ctx.t0,
        rule="steps with threshold 2-4 and threshold..threshold+2 valid authorised links; one link dissents in one of "
             "{path, digest, algorithm name, additional algorithm, extra entry, missing entry} x {materials, products} "
             "or only in byproducts/command (positive control) or not at all; the dissenter has the smallest / middle / "
             "largest key id; 8 verifications per scenario; every scenario non-trivial; distinct by (layout, directory)",
        assumptions=["validity of all links by construction"],
        required=["a_link_carries_its_signature_twice:rejected", "a_link_carries_its_signature_twice:accepted", "link_files_are_symlinks:dissenter:rejected", "link_files_are_symlinks:all:accepted", "crowd:dissent:none", "crowd:accepted", "crowd:rejected", "positive_control_accepted", "dissent:path", "dissent:digest", "dissent:alg", "dissent:extra",
                  "dissent:missing", "where:materials", "where:products", "rank:smallest", "rank:largest", "rank:middle",
                  "surplus_links", "threshold:2", "threshold:3", "threshold:4", "dissent:byproducts_only", "dissent:digest_truncated", "dissent:path_respelled",
                  "dissent:delegated:none", "dissent:delegated:digest", "dissent:inner_step_of_surplus_sublayout:digest", "dissent:inner_step_of_surplus_sublayout:none", "dissent:delegated:extra", "dissent:extra_without_digests", "dissent:digests_emptied", "dissenter_cosigned_another_link:dissent", "dissenter_cosigned_another_link:no_artifact_dissent"],
        min_evals=1000)
