//! Build layout / link values through the library's public constructors and
//! builders (no parsing of the document itself), from a wire-shaped JSON
//! description: `VirtualTargetPath::from(&str)`, `ArtifactRule` variants,
//! `Step::new(..)`, `LinkMetadataBuilder`, `LayoutMetadataBuilder`.

use std::collections::{BTreeMap, HashMap};
use std::str::FromStr;

use in_toto::crypto::{HashAlgorithm, HashValue, KeyId, PublicKey};
use in_toto::models::byproducts::ByProducts;
use in_toto::models::inspection::Inspection;
use in_toto::models::rule::{Artifact, ArtifactRule};
use in_toto::models::step::{Command, Step};
use in_toto::models::{
    LayoutMetadataBuilder, LinkMetadataBuilder, MetadataWrapper,
    TargetDescription, VirtualTargetPath,
};
use serde_json::Value;

use crate::util::unhex;

fn s(v: &Value) -> Result<String, String> {
    v.as_str().map(|x| x.to_string()).ok_or_else(|| format!("string expected: {}", v))
}

fn strings(v: &Value) -> Result<Vec<String>, String> {
    v.as_array().ok_or("array expected")?.iter().map(s).collect()
}

fn artifacts(
    v: &Value,
) -> Result<BTreeMap<VirtualTargetPath, TargetDescription>, String> {
    let mut out = BTreeMap::new();
    for (path, digests) in v.as_object().ok_or("artifact map expected")? {
        let mut d: TargetDescription = HashMap::new();
        for (alg, hexv) in digests.as_object().ok_or("digest map expected")? {
            let alg = match alg.as_str() {
                "sha256" => HashAlgorithm::Sha256,
                "sha512" => HashAlgorithm::Sha512,
                other => return Err(format!("unsupported algorithm {}", other)),
            };
            d.insert(alg, HashValue::new(unhex(&s(hexv)?)));
        }
        out.insert(VirtualTargetPath::from(path.as_str()), d);
    }
    Ok(out)
}

/// A key-table entry made with the public constructors (`from_ed25519*`,
/// `from_ecdsa*`, `from_pem_spki`) where one of them can express the entry;
/// decoded from its JSON description otherwise.
fn public_key(k: &Value) -> Result<PublicKey, String> {
    let algs: Option<Vec<String>> = match k.get("keyid_hash_algorithms") {
        None | Some(Value::Null) => None,
        Some(v) => Some(strings(v)?),
    };
    let public = k["keyval"]["public"].as_str().unwrap_or("");
    let is_hex = public.len() % 2 == 0
        && public.bytes().all(|c| c.is_ascii_hexdigit());
    let default_algs =
        Some(vec!["sha256".to_string(), "sha512".to_string()]);
    let made = match (k["keytype"].as_str(), k["scheme"].as_str()) {
        (Some("ed25519"), Some("ed25519")) if is_hex => Some(
            PublicKey::from_ed25519_with_keyid_hash_algorithms(
                unhex(public),
                algs,
            ),
        ),
        (Some("ecdsa"), Some("ecdsa-sha2-nistp256")) if is_hex => Some(
            PublicKey::from_ecdsa_with_keyid_hash_algorithms(
                unhex(public),
                algs,
            ),
        ),
        (Some("rsa"), Some("rsassa-pss-sha256")) if algs == default_algs => {
            Some(PublicKey::from_pem_spki(
                public,
                in_toto::crypto::SignatureScheme::RsaSsaPssSha256,
            ))
        }
        (Some("rsa"), Some("rsassa-pss-sha512")) if algs == default_algs => {
            Some(PublicKey::from_pem_spki(
                public,
                in_toto::crypto::SignatureScheme::RsaSsaPssSha512,
            ))
        }
        _ => None,
    };
    match made {
        Some(Ok(key)) => Ok(key),
        Some(Err(e)) => Err(format!("programming: key constructor: {}", e)),
        None => crate::util::via_text(k).map_err(|e| e.to_string()),
    }
}

fn rule(v: &Value) -> Result<ArtifactRule, String> {
    let r = strings(v)?;
    if r.len() < 2 {
        return Err("rule too short".into());
    }
    let pat = VirtualTargetPath::from(r[1].as_str());
    Ok(match r[0].as_str() {
        "CREATE" => ArtifactRule::Create(pat),
        "DELETE" => ArtifactRule::Delete(pat),
        "MODIFY" => ArtifactRule::Modify(pat),
        "ALLOW" => ArtifactRule::Allow(pat),
        "REQUIRE" => ArtifactRule::Require(pat),
        "DISALLOW" => ArtifactRule::Disallow(pat),
        "MATCH" => {
            let mut i = 2;
            let mut in_src = None;
            let mut in_dst = None;
            if r.get(i).map(|x| x.as_str()) == Some("IN") {
                in_src = Some(r.get(i + 1).ok_or("IN without prefix")?.clone());
                i += 2;
            }
            if r.get(i).map(|x| x.as_str()) != Some("WITH") {
                return Err("WITH expected".into());
            }
            let with = match r.get(i + 1).map(|x| x.as_str()) {
                Some("MATERIALS") => Artifact::Materials,
                Some("PRODUCTS") => Artifact::Products,
                _ => return Err("MATERIALS/PRODUCTS expected".into()),
            };
            i += 2;
            if r.get(i).map(|x| x.as_str()) == Some("IN") {
                in_dst = Some(r.get(i + 1).ok_or("IN without prefix")?.clone());
                i += 2;
            }
            if r.get(i).map(|x| x.as_str()) != Some("FROM") {
                return Err("FROM expected".into());
            }
            let from = r.get(i + 1).ok_or("FROM without name")?.clone();
            if r.len() != i + 2 {
                return Err("trailing rule elements".into());
            }
            ArtifactRule::Match { pattern: pat, in_src, with, in_dst, from }
        }
        other => return Err(format!("unknown rule {}", other)),
    })
}

fn rules(v: &Value) -> Result<Vec<ArtifactRule>, String> {
    v.as_array().ok_or("rule list expected")?.iter().map(rule).collect()
}

/// only documents the builders can express exactly are built (`Err` = not expressible, the caller
/// falls back to nothing: the case is skipped)
pub fn build(doc: &Value) -> Result<MetadataWrapper, String> {
    match doc["_type"].as_str() {
        Some("link") => {
            let mut bp = ByProducts::new();
            for (k, v) in doc["byproducts"].as_object().ok_or("byproducts")? {
                match k.as_str() {
                    "stdout" => bp = bp.set_stdout(s(v)?),
                    "stderr" => bp = bp.set_stderr(s(v)?),
                    "return-value" => {
                        bp = bp.set_return_value(v.as_i64().ok_or("return-value")? as i32)
                    }
                    // "\u{1}other:<name>" asks for `set_other_field(<name>, ..)` whatever <name> is - also one
                    // of the three named members (a JSON object cannot say that twice)
                    _ if k.starts_with("\u{1}other:") => {
                        bp = bp.set_other_field(k["\u{1}other:".len()..].to_string(), s(v)?)
                    }
                    _ => bp = bp.set_other_field(k.clone(), s(v)?),
                }
            }
            let env = match &doc["environment"] {
                Value::Null => None,
                Value::Object(m) => {
                    let mut e = BTreeMap::new();
                    for (k, v) in m {
                        e.insert(k.clone(), s(v)?);
                    }
                    Some(e)
                }
                _ => return Err("environment".into()),
            };
            let link = LinkMetadataBuilder::new()
                .name(s(&doc["name"])?)
                .materials(artifacts(&doc["materials"])?)
                .products(artifacts(&doc["products"])?)
                .env(env)
                .byproducts(bp)
                .command(Command::from(strings(&doc["command"])?))
                .build()
                .map_err(|e| e.to_string())?;
            Ok(MetadataWrapper::Link(link))
        }
        Some("layout") => {
            let expires = s(&doc["expires"])?;
            let expires = in_toto_datetime(&expires)?;
            let mut b = LayoutMetadataBuilder::new()
                .expires(expires)
                .readme(s(&doc["readme"])?);
            for (id, k) in doc["keys"].as_object().ok_or("keys")? {
                let key: PublicKey = public_key(k)?;
                if serde_json::to_value(key.key_id()).ok() != Some(Value::String(id.clone())) {
                    return Err("key table entry not under its own id".into());
                }
                b = b.add_key(key);
            }
            for st in doc["steps"].as_array().ok_or("steps")? {
                if st["_type"].as_str() != Some("step") {
                    return Err("step _type".into());
                }
                let mut step = Step::new(&s(&st["name"])?)
                    .threshold(st["threshold"].as_u64().ok_or("threshold")? as u32)
                    .expected_command(Command::from(strings(&st["expected_command"])?))
                    .expected_materials(rules(&st["expected_materials"])?)
                    .expected_products(rules(&st["expected_products"])?);
                for k in strings(&st["pubkeys"])? {
                    step = step.add_key(KeyId::from_str(&k).map_err(|e| e.to_string())?);
                }
                b = b.add_step(step);
            }
            for ins in doc["inspect"].as_array().ok_or("inspect")? {
                if ins["_type"].as_str() != Some("inspection") {
                    return Err("inspection _type".into());
                }
                let i = Inspection::new(&s(&ins["name"])?)
                    .run(Command::from(strings(&ins["run"])?))
                    .expected_materials(rules(&ins["expected_materials"])?)
                    .expected_products(rules(&ins["expected_products"])?);
                b = b.add_inspect(i);
            }
            Ok(MetadataWrapper::Layout(b.build().map_err(|e| e.to_string())?))
        }
        _ => Err("neither link nor layout".into()),
    }
}

fn in_toto_datetime(
    text: &str,
) -> Result<chrono::DateTime<chrono::Utc>, String> {
    chrono::DateTime::parse_from_rfc3339(text)
        .map(|d| d.with_timezone(&chrono::Utc))
        .map_err(|e| e.to_string())
}
