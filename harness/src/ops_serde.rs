//! decoding channels, wire round trips, attestation statements/predicates

use in_toto::crypto::{KeyId, PublicKey, Signature};
use in_toto::interchange::{DataInterchange, Json, JsonPretty};
use in_toto::models::byproducts::ByProducts;
use in_toto::models::inspection::Inspection;
use in_toto::models::rule::ArtifactRule;
use in_toto::models::step::{Command, Step};
use in_toto::models::{
    verif_hooks, LayoutMetadata, LinkMetadata, Metablock, MetadataWrapper,
    PredicateVer, PredicateWrapper, StatementVer, StatementWrapper,
};
use serde::de::DeserializeOwned;
use serde::Serialize;
use serde_json::{json, Value};

use crate::util::{bytes_of, clip, guarded, ChunkReader};

fn res<T>(r: Result<Result<T, String>, Value>) -> (Option<T>, Value) {
    match r {
        Ok(Ok(v)) => (Some(v), json!("ok")),
        Ok(Err(e)) => (None, json!({"err": clip(&e)})),
        Err(p) => (None, json!({"panic": p})),
    }
}

fn channels<T: DeserializeOwned + Serialize + PartialEq>(
    data: &[u8],
    broken_first: Option<(&[u8], usize)>,
) -> Value {
    // optional history: an earlier decode on this thread whose reader failed midway
    if let Some((bytes, ok)) = broken_first {
        let _ = guarded(|| {
            Json::from_reader::<_, T>(crate::util::FailingReader { data: bytes, pos: 0, ok })
                .map_err(|e| e.to_string())
        });
        let _ = guarded(|| {
            JsonPretty::from_reader::<_, T>(crate::util::FailingReader { data: bytes, pos: 0, ok })
                .map_err(|e| e.to_string())
        });
        let _ = guarded(|| {
            serde_json::from_reader::<_, T>(crate::util::FailingReader { data: bytes, pos: 0, ok })
                .map_err(|e| e.to_string())
        });
    }
    let mut ch = serde_json::Map::new();
    let mut vals: Vec<(String, T)> = Vec::new();
    let mut put = |name: &str, r: Result<Result<T, String>, Value>| {
        let (v, o) = res(r);
        ch.insert(name.to_string(), o);
        if let Some(v) = v {
            vals.push((name.to_string(), v));
        }
    };
    if let Ok(s) = std::str::from_utf8(data) {
        put(
            "str",
            guarded(|| serde_json::from_str::<T>(s).map_err(|e| e.to_string())),
        );
    }
    put(
        "slice",
        guarded(|| serde_json::from_slice::<T>(data).map_err(|e| e.to_string())),
    );
    put(
        "reader",
        guarded(|| {
            serde_json::from_reader::<_, T>(ChunkReader::new(data))
                .map_err(|e| e.to_string())
        }),
    );
    let tree = serde_json::from_slice::<Value>(data);
    // (a text from which no tree can be built - not JSON, or nested beyond what a tree may hold although a typed reader
    // skips the deep member without recursing - cannot reach the library as a tree at all: the tree channels then do not
    // exist for it; they are not "rejecting" channels)
    if let Ok(v) = &tree {
        put(
            "value",
            guarded(|| serde_json::from_value::<T>(v.clone()).map_err(|e| e.to_string())),
        );
    }
    put(
        "jreader",
        guarded(|| {
            Json::from_reader::<_, T>(ChunkReader::new(data))
                .map_err(|e| e.to_string())
        }),
    );
    put(
        "jslice",
        guarded(|| Json::from_slice::<T>(data).map_err(|e| e.to_string())),
    );
    if let Ok(v) = &tree {
        put(
            "jdeser",
            guarded(|| Json::deserialize::<T>(v).map_err(|e| e.to_string())),
        );
    }
    put(
        "jpreader",
        guarded(|| {
            JsonPretty::from_reader::<_, T>(ChunkReader::new(data))
                .map_err(|e| e.to_string())
        }),
    );
    let mut o = json!({"ch": ch});
    if let Err(e) = &tree {
        o["tree_unavailable"] = json!(e.to_string());
    }
    let all_eq = vals.windows(2).all(|w| w[0].1 == w[1].1);
    o["all_eq"] = json!(all_eq);
    o["n_ok"] = json!(vals.len());
    if let Some((_, v)) = vals.first() {
        o["rt"] = round_trip(v);
    }
    o
}

/// serialise -> parse -> serialise for one value, through every writer
fn round_trip<T: DeserializeOwned + Serialize + PartialEq>(v: &T) -> Value {
    let mut o = json!({});
    o["val"] = serde_json::to_value(v).unwrap_or(Value::Null);
    let writers: Vec<(&str, Box<dyn Fn(&T) -> Result<Vec<u8>, String>>)> = vec![
        (
            "compact",
            Box::new(|x: &T| serde_json::to_vec(x).map_err(|e| e.to_string())),
        ),
        (
            "pretty",
            Box::new(|x: &T| {
                serde_json::to_vec_pretty(x).map_err(|e| e.to_string())
            }),
        ),
        (
            "cjson",
            Box::new(|x: &T| {
                let mut b = Vec::new();
                Json::to_writer(&mut b, x).map_err(|e| e.to_string())?;
                Ok(b)
            }),
        ),
        (
            "cjson_pretty",
            Box::new(|x: &T| {
                let mut b = Vec::new();
                JsonPretty::to_writer(&mut b, x).map_err(|e| e.to_string())?;
                Ok(b)
            }),
        ),
    ];
    for (name, w) in writers {
        let r = guarded(|| -> Result<Value, String> {
            let first = w(v)?;
            let back: T = serde_json::from_slice(&first)
                .map_err(|e| format!("reparse: {}", e))?;
            let second = w(&back)?;
            Ok(json!({
                "text": String::from_utf8_lossy(&first),
                "eq": back == *v,
                "same_bytes": first == second,
            }))
        });
        o[name] = match r {
            Ok(Ok(x)) => x,
            Ok(Err(e)) => json!({"err": clip(&e)}),
            Err(p) => json!({"panic": p}),
        };
    }
    o
}

/// {doc}: a layout / link value built through the public builders (not parsed), then the same
/// writer round trips as for parsed values
pub fn api_rt(case: &Value) -> Value {
    match guarded(|| crate::api_build::build(&case["doc"])) {
        Ok(Ok(meta)) => {
            let mut o = round_trip(&meta);
            o["built"] = json!(true);
            o
        }
        Ok(Err(e)) => json!({"not_expressible": e}),
        Err(p) => json!({"panic": p}),
    }
}

/// {type, text}
pub fn serde_op(case: &Value) -> Value {
    let data = bytes_of(&case["text"]);
    let broken_bytes = case.get("broken_first").map(|b| bytes_of(&b["text"]));
    let broken_ok = case
        .get("broken_first")
        .and_then(|b| b["ok"].as_u64())
        .unwrap_or(0) as usize;
    let bf = broken_bytes.as_ref().map(|b| (&b[..], broken_ok));
    serde_dispatch(case, &data, bf)
}

fn serde_dispatch(case: &Value, data: &[u8], bf: Option<(&[u8], usize)>) -> Value {
    let data = data.to_vec();
    match case["type"].as_str().unwrap_or("") {
        "metablock" => channels::<Metablock>(&data, bf),
        "wrapper" => {
            let mut o = channels::<MetadataWrapper>(&data, bf);
            // the crate's own byte-slice entry points for "a layout or a link"
            let reference = serde_json::from_slice::<MetadataWrapper>(&data).ok();
            // the same decode target as `try_from_bytes` (a layout, else a link), read by serde_json's slice route
            let typed = guarded(|| {
                serde_json::from_slice::<LayoutMetadata>(&data)
                    .map(MetadataWrapper::Layout)
                    .or_else(|_| serde_json::from_slice::<LinkMetadata>(&data).map(MetadataWrapper::Link))
                    .map_err(|e| e.to_string())
            });
            let (typed_v, typed_out) = res(typed);
            o["ch"]["typed_slice"] = typed_out;
            let mut typed_same = true;
            let mut same = true;
            for (name, r) in [
                (
                    "try_from_bytes",
                    guarded(|| MetadataWrapper::try_from_bytes(&data).map_err(|e| e.to_string())),
                ),
                (
                    "raw_builder",
                    guarded(|| {
                        in_toto::models::MetablockBuilder::from_raw_metadata(&data)
                            .map(|b| b.build().metadata)
                            .map_err(|e| e.to_string())
                    }),
                ),
            ] {
                let (v, out) = res(r);
                if let (Some(v), Some(rf)) = (&v, &reference) {
                    same &= v == rf;
                }
                if let (Some(v), Some(tv)) = (&v, &typed_v) {
                    typed_same &= v == tv;
                }
                o["ch"][name] = out;
            }
            o["typed_eq"] = json!(typed_same);
            if !same {
                o["all_eq"] = json!(false);
            }
            o
        }
        "layout" => channels::<LayoutMetadata>(&data, bf),
        "link" => channels::<LinkMetadata>(&data, bf),
        "pubkey" => channels::<PublicKey>(&data, bf),
        "signature" => channels::<Signature>(&data, bf),
        "keyid" => channels::<KeyId>(&data, bf),
        "rule" => channels::<ArtifactRule>(&data, bf),
        "step" => channels::<Step>(&data, bf),
        "inspection" => channels::<Inspection>(&data, bf),
        "byproducts" => channels::<ByProducts>(&data, bf),
        "command" => channels::<Command>(&data, bf),
        "statement" => channels::<StatementWrapper>(&data, bf),
        "predicate" => channels::<PredicateWrapper>(&data, bf),
        t => json!({"harness_error": format!("unknown type {}", t)}),
    }
}

fn pver(v: PredicateVer) -> String {
    v.into()
}

fn sver(v: StatementVer) -> String {
    v.into()
}

/// {kind: statement|predicate, text}
pub fn stmt(case: &Value) -> Value {
    let data = bytes_of(&case["text"]);
    let tree = match serde_json::from_slice::<Value>(&data) {
        Ok(v) => v,
        Err(e) => return json!({"json_err": e.to_string()}),
    };
    let mut o = json!({});
    if case["kind"].as_str() == Some("predicate") {
        o["accepting"] = match guarded(|| {
            verif_hooks::predicate_versions_accepting(&tree)
        }) {
            Ok(v) => json!(v.into_iter().map(pver).collect::<Vec<_>>()),
            Err(p) => json!({"panic": p}),
        };
        o["judge"] = match guarded(|| PredicateWrapper::judge_from_value(&tree)) {
            Ok(Ok(v)) => json!({"ok": pver(v)}),
            Ok(Err(e)) => json!({"err": clip(&e.to_string())}),
            Err(p) => json!({"panic": p}),
        };
        let r = guarded(|| serde_json::from_slice::<PredicateWrapper>(&data));
        o["parse"] = match r {
            Ok(Ok(w)) => {
                let w2 = w.clone();
                let t = w.into_trait();
                let ver = pver(t.version());
                let canon = guarded(|| t.to_bytes());
                let mut a = json!({"version": ver});
                match canon {
                    Ok(Ok(b)) => {
                        a["canon"] = json!(String::from_utf8_lossy(&b));
                        match serde_json::from_slice::<PredicateWrapper>(&b) {
                            Ok(back) => {
                                a["reparse_eq"] = json!(back == w2);
                                a["reparse_version"] =
                                    json!(pver(back.into_trait().version()));
                            }
                            Err(e) => {
                                a["reparse_err"] = json!(clip(&e.to_string()))
                            }
                        }
                    }
                    Ok(Err(e)) => a["canon_err"] = json!(clip(&e.to_string())),
                    Err(p) => a["canon_panic"] = p,
                }
                json!({"ok": a})
            }
            Ok(Err(e)) => json!({"err": clip(&e.to_string())}),
            Err(p) => json!({"panic": p}),
        };
    } else {
        o["accepting"] = match guarded(|| {
            verif_hooks::statement_versions_accepting(&tree)
        }) {
            Ok(v) => json!(v.into_iter().map(sver).collect::<Vec<_>>()),
            Err(p) => json!({"panic": p}),
        };
        o["judge"] = match guarded(|| StatementWrapper::judge_from_value(&tree)) {
            Ok(Ok(v)) => json!({"ok": sver(v)}),
            Ok(Err(e)) => json!({"err": clip(&e.to_string())}),
            Err(p) => json!({"panic": p}),
        };
        let r = guarded(|| serde_json::from_slice::<StatementWrapper>(&data));
        o["parse"] = match r {
            Ok(Ok(w)) => {
                // StatementWrapper is not Clone: parse a second copy for comparison
                let w2 = serde_json::from_slice::<StatementWrapper>(&data).ok();
                let t = w.into_trait();
                let ver = sver(t.version());
                let canon = guarded(|| t.to_bytes());
                let mut a = json!({"version": ver});
                match canon {
                    Ok(Ok(b)) => {
                        a["canon"] = json!(String::from_utf8_lossy(&b));
                        match serde_json::from_slice::<StatementWrapper>(&b) {
                            Ok(back) => {
                                a["reparse_eq"] = json!(Some(&back) == w2.as_ref());
                                a["reparse_version"] =
                                    json!(sver(back.into_trait().version()));
                            }
                            Err(e) => {
                                a["reparse_err"] = json!(clip(&e.to_string()))
                            }
                        }
                    }
                    Ok(Err(e)) => a["canon_err"] = json!(clip(&e.to_string())),
                    Err(p) => a["canon_panic"] = p,
                }
                json!({"ok": a})
            }
            Ok(Err(e)) => json!({"err": clip(&e.to_string())}),
            Err(p) => json!({"panic": p}),
        };
    }
    o
}

/// {link: <link json>, ver: naive|v01, pred?: <predicate json>}
pub fn from_meta(case: &Value) -> Value {
    let link = match crate::util::via_text::<LinkMetadata>(&case["link"]) {
        Ok(l) => l,
        Err(e) => return json!({"link_err": e.to_string()}),
    };
    let pred = match case.get("pred") {
        Some(p) if !p.is_null() => {
            match crate::util::via_text::<PredicateWrapper>(p) {
                Ok(w) => Some(w.into_trait()),
                Err(e) => return json!({"pred_err": e.to_string()}),
            }
        }
        _ => None,
    };
    let ver = if case["ver"].as_str() == Some("v01") {
        StatementVer::V0_1
    } else {
        StatementVer::Naive
    };
    let r = guarded(|| {
        StatementWrapper::from_meta(link, pred, ver).into_trait().to_bytes()
    });
    match r {
        Ok(Ok(b)) => json!({"ok": String::from_utf8_lossy(&b)}),
        Ok(Err(e)) => json!({"err": clip(&e.to_string())}),
        Err(p) => json!({"panic": p}),
    }
}
