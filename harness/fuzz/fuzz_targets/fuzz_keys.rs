#![no_main]
//! untrusted key material: DER / PEM SubjectPublicKeyInfo, PKCS#8, JSON keys
use in_toto::crypto::{PrivateKey, PublicKey, SignatureScheme};
use libfuzzer_sys::fuzz_target;

fuzz_target!(|data: &[u8]| {
    if data.is_empty() {
        return;
    }
    let scheme = match data[0] % 4 {
        0 => SignatureScheme::Ed25519,
        1 => SignatureScheme::RsaSsaPssSha256,
        2 => SignatureScheme::RsaSsaPssSha512,
        _ => SignatureScheme::EcdsaP256Sha256,
    };
    let rest = &data[1..];
    if let Ok(k) = PublicKey::from_spki(rest, scheme.clone()) {
        let _ = k.key_id().prefix();
        let _ = k.as_spki();
    }
    if let Ok(s) = std::str::from_utf8(rest) {
        let _ = PublicKey::from_pem_spki(s, scheme.clone());
    }
    let _ = PrivateKey::from_pkcs8(rest, scheme);
    let _ = PrivateKey::from_ed25519(rest);
    let _ = PublicKey::from_ed25519(rest.to_vec());
    if let Ok(k) = serde_json::from_slice::<PublicKey>(rest) {
        let _ = k.key_id().prefix();
        let _ = serde_json::to_string(&k);
    }
});
