//! panic capture, hex, chunked reader

use std::io::Read;
use std::panic::{catch_unwind, AssertUnwindSafe};
use std::sync::Mutex;

use serde_json::{json, Value};

static LAST_PANIC: Mutex<Option<(String, String)>> = Mutex::new(None);

pub fn install_panic_hook() {
    std::panic::set_hook(Box::new(|info| {
        let loc = info
            .location()
            .map(|l| format!("{}:{}", l.file(), l.line()))
            .unwrap_or_else(|| "?".into());
        let msg = if let Some(s) = info.payload().downcast_ref::<&str>() {
            s.to_string()
        } else if let Some(s) = info.payload().downcast_ref::<String>() {
            s.clone()
        } else {
            "<non-string panic payload>".to_string()
        };
        *LAST_PANIC.lock().unwrap() = Some((loc, msg));
    }));
}

/// Run `f`; a panic becomes `Err({"loc","msg"})`.
pub fn guarded<T>(f: impl FnOnce() -> T) -> Result<T, Value> {
    match catch_unwind(AssertUnwindSafe(f)) {
        Ok(v) => Ok(v),
        Err(_) => {
            let (loc, msg) = LAST_PANIC
                .lock()
                .unwrap()
                .take()
                .unwrap_or_else(|| ("?".into(), "?".into()));
            let mut msg = msg;
            if msg.len() > 300 {
                let mut cut = 300;
                while !msg.is_char_boundary(cut) {
                    cut -= 1;
                }
                msg.truncate(cut);
            }
            Err(json!({"loc": loc, "msg": msg}))
        }
    }
}

/// three-valued outcome of a guarded fallible call as JSON
pub fn outcome<T, E: std::fmt::Display>(
    r: Result<Result<T, E>, Value>,
    ok: impl FnOnce(T) -> Value,
) -> Value {
    match r {
        Ok(Ok(v)) => json!({"ok": ok(v)}),
        Ok(Err(e)) => json!({"err": clip(&e.to_string())}),
        Err(p) => json!({"panic": p}),
    }
}

pub fn clip(s: &str) -> String {
    if s.len() <= 400 {
        return s.to_string();
    }
    let mut cut = 400;
    while !s.is_char_boundary(cut) {
        cut -= 1;
    }
    format!("{}…", &s[..cut])
}

pub fn hex(b: &[u8]) -> String {
    const T: &[u8; 16] = b"0123456789abcdef";
    let mut s = String::with_capacity(b.len() * 2);
    for x in b {
        s.push(T[(x >> 4) as usize] as char);
        s.push(T[(x & 15) as usize] as char);
    }
    s
}

pub fn unhex(s: &str) -> Vec<u8> {
    fn v(c: u8) -> u8 {
        match c {
            b'0'..=b'9' => c - b'0',
            b'a'..=b'f' => c - b'a' + 10,
            b'A'..=b'F' => c - b'A' + 10,
            _ => panic!("harness: bad hex"),
        }
    }
    let b = s.as_bytes();
    assert!(b.len() % 2 == 0, "harness: odd hex");
    b.chunks(2).map(|p| (v(p[0]) << 4) | v(p[1])).collect()
}

/// bytes of a case field that is either a JSON string (UTF-8 text) or {"hex": "..."}
pub fn bytes_of(v: &Value) -> Vec<u8> {
    match v {
        Value::String(s) => s.as_bytes().to_vec(),
        Value::Object(m) => unhex(m["hex"].as_str().expect("hex field")),
        _ => panic!("harness: bytes field must be string or {{hex}}"),
    }
}

/// A reader that hands out 1..=7 bytes per call (cycling), to exercise the
/// streaming decoding path.
pub struct ChunkReader<'a> {
    data: &'a [u8],
    pos: usize,
    step: usize,
}

impl<'a> ChunkReader<'a> {
    pub fn new(data: &'a [u8]) -> Self {
        ChunkReader { data, pos: 0, step: 0 }
    }
}

impl<'a> Read for ChunkReader<'a> {
    fn read(&mut self, buf: &mut [u8]) -> std::io::Result<usize> {
        if self.pos >= self.data.len() || buf.is_empty() {
            return Ok(0);
        }
        self.step = self.step % 7 + 1;
        let n = self.step.min(buf.len()).min(self.data.len() - self.pos);
        buf[..n].copy_from_slice(&self.data[self.pos..self.pos + n]);
        self.pos += n;
        Ok(n)
    }
}

/// Decode a case field through the *text* channel.  The harness never relies on
/// `from_value` for the library's types: channel independence is C17's subject.
pub fn via_text<T: serde::de::DeserializeOwned>(
    v: &Value,
) -> Result<T, serde_json::Error> {
    serde_json::from_str(&serde_json::to_string(v)?)
}

/// A reader that delivers `ok` bytes of `data` and then fails with an I/O error.
pub struct FailingReader<'a> {
    pub data: &'a [u8],
    pub pos: usize,
    pub ok: usize,
}

impl<'a> Read for FailingReader<'a> {
    fn read(&mut self, buf: &mut [u8]) -> std::io::Result<usize> {
        if self.pos >= self.ok.min(self.data.len()) {
            return Err(std::io::Error::new(
                std::io::ErrorKind::ConnectionReset,
                "harness: injected read failure",
            ));
        }
        let n = buf.len().min(3).min(self.ok.min(self.data.len()) - self.pos);
        buf[..n].copy_from_slice(&self.data[self.pos..self.pos + n]);
        self.pos += n;
        Ok(n)
    }
}


/// A logger like the one an application embedding the library installs: it admits
/// every level and formats every record (so the arguments of the library's log
/// statements are evaluated on the data under test).  `ITV_NO_LOGGER=1` leaves the
/// process without a logger.
struct FormattingLogger;

pub static LOG_RECORDS: std::sync::atomic::AtomicU64 =
    std::sync::atomic::AtomicU64::new(0);
pub static LOG_BYTES: std::sync::atomic::AtomicU64 =
    std::sync::atomic::AtomicU64::new(0);

impl log::Log for FormattingLogger {
    fn enabled(&self, _: &log::Metadata) -> bool {
        true
    }
    fn log(&self, record: &log::Record) {
        use std::sync::atomic::Ordering;
        let line = format!(
            "{} {} {}",
            record.level(),
            record.target(),
            record.args()
        );
        LOG_RECORDS.fetch_add(1, Ordering::Relaxed);
        LOG_BYTES.fetch_add(line.len() as u64, Ordering::Relaxed);
    }
    fn flush(&self) {}
}

pub fn install_logger() {
    if std::env::var_os("ITV_NO_LOGGER").is_some() {
        return;
    }
    static LOGGER: FormattingLogger = FormattingLogger;
    if log::set_logger(&LOGGER).is_ok() {
        log::set_max_level(log::LevelFilter::Trace);
    }
}


/// In-memory edits of a parsed signed block through the public fields of the value.
/// Returns false when the value offers nothing to edit in the requested way.
pub fn mem_edit(mb: &mut in_toto::models::Metablock, kind: &str) -> bool {
    use in_toto::models::MetadataWrapper;
    match (&mut mb.metadata, kind) {
        (MetadataWrapper::Layout(l), "rekey_swap") => {
            // the keys of two table entries change places (each entry keeps its identifier)
            let mut ids: Vec<_> = l.keys.keys().cloned().collect();
            ids.sort();
            if ids.len() < 2 {
                return false;
            }
            let a = l.keys[&ids[0]].clone();
            let b = l.keys[&ids[1]].clone();
            l.keys.insert(ids[0].clone(), b);
            l.keys.insert(ids[1].clone(), a);
            true
        }
        (MetadataWrapper::Layout(l), "rekey_alias") => {
            // one more entry: the first key filed once more under a made-up identifier
            let mut ids: Vec<_> = l.keys.keys().cloned().collect();
            ids.sort();
            if ids.is_empty() {
                return false;
            }
            let k = l.keys[&ids[0]].clone();
            let alias: in_toto::crypto::KeyId =
                std::str::FromStr::from_str(&"ab".repeat(32)).unwrap();
            l.keys.insert(alias, k);
            true
        }
        (MetadataWrapper::Layout(l), "readme") => {
            l.readme.push_str(" (edited in memory)");
            true
        }
        (MetadataWrapper::Layout(l), "drop_step") => l.steps.pop().is_some(),
        (MetadataWrapper::Layout(l), "expires") => {
            l.expires += chrono::Duration::days(365);
            true
        }
        (MetadataWrapper::Link(l), "readme") | (MetadataWrapper::Link(l), "name") => {
            l.name.push('x');
            true
        }
        _ => false,
    }
}


/// A writer that accepts at most `step` bytes per `write` call.
pub struct ShortWriter {
    pub buf: Vec<u8>,
    pub step: usize,
}

impl std::io::Write for ShortWriter {
    fn write(&mut self, data: &[u8]) -> std::io::Result<usize> {
        let n = data.len().min(self.step);
        self.buf.extend_from_slice(&data[..n]);
        Ok(n)
    }
    fn flush(&mut self) -> std::io::Result<()> {
        Ok(())
    }
}


/// Watches one library call: if the call has not returned after `secs` seconds of wall-clock time AND the
/// process has used next to no CPU time meanwhile (it is blocked, not busy), the process says so and exits
/// with status 97 - the supervisor re-runs the case alone before believing it.  A busy call is left to the
/// CPU-time limit.
pub struct NoReturnGuard(Option<std::sync::Arc<std::sync::atomic::AtomicBool>>);

fn cpu_ticks() -> u64 {
    std::fs::read_to_string("/proc/self/stat")
        .ok()
        .and_then(|s| {
            let rest = s.rsplit_once(')')?.1.to_string();
            let f: Vec<&str> = rest.split_whitespace().collect();
            Some(f.get(11)?.parse::<u64>().ok()? + f.get(12)?.parse::<u64>().ok()?)
        })
        .unwrap_or(0)
}

impl NoReturnGuard {
    pub fn arm(secs: Option<u64>) -> Self {
        let secs = match secs {
            Some(s) if s > 0 => s,
            _ => return NoReturnGuard(None),
        };
        let done = std::sync::Arc::new(std::sync::atomic::AtomicBool::new(false));
        let d2 = done.clone();
        std::thread::spawn(move || {
            let mut last = cpu_ticks();
            let mut idle = 0u64;
            loop {
                std::thread::sleep(std::time::Duration::from_secs(1));
                if d2.load(std::sync::atomic::Ordering::SeqCst) {
                    return;
                }
                let now = cpu_ticks();
                // fewer than 5 clock ticks (50 ms) of CPU in this second: idle
                if now.saturating_sub(last) < 5 {
                    idle += 1;
                } else {
                    idle = 0;
                }
                last = now;
                if idle >= secs {
                    eprintln!("ITV-NO-RETURN: the library call has been blocked without using CPU time for {} s", secs);
                    std::process::exit(97);
                }
            }
        });
        NoReturnGuard(Some(done))
    }
}

impl Drop for NoReturnGuard {
    fn drop(&mut self) {
        if let Some(d) = &self.0 {
            d.store(true, std::sync::atomic::Ordering::SeqCst);
        }
    }
}
