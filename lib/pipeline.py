"""Builders of otherwise-valid verification scenarios ("ground truth by construction"):
every stage that is not the subject of the property under test is made trivially passing."""
import copy

import scen

STEP_NAMES = ["fetch", "build", "test", "package", "sign-off", "s0", "s1", "s2", "lint", "vcs.clone", "a b", "é-step"]


def chain_artifacts(i):
    """materials/products of step i in a simple chain: each step adds one product"""
    mats = {"src/a.c": scen.digest(1)}
    for j in range(i):
        mats[f"out/o{j}"] = scen.digest(10 + j)
    prods = dict(mats)
    prods[f"out/o{i}"] = scen.digest(10 + i)
    return mats, prods


def rules_for(rng, i, names, force=None):
    """rule lists that the chain artifacts satisfy"""
    k = rng.randrange(5)
    if force is not None:
        k = force
    if k == 0:
        return [], []
    if k == 4 and i > 0:
        # a MATCH rule followed by a tolerant tail: an edit of the MATCH rule alone does not make the links fail
        return ([["MATCH", "*", "WITH", "PRODUCTS", "FROM", names[i - 1]], ["ALLOW", "*"]],
                [["MATCH", "src/*", "WITH", "MATERIALS", "FROM", names[i - 1]], ["ALLOW", "*"]])
    if k == 1:
        return [["ALLOW", "*"]], [["ALLOW", "*"]]
    if k == 2 and i > 0:
        return ([["MATCH", "*", "WITH", "PRODUCTS", "FROM", names[i - 1]], ["DISALLOW", "*"]],
                [["CREATE", f"out/o{i}"], ["ALLOW", "*"]])
    return [["REQUIRE", "src/a.c"], ["ALLOW", "src/*"], ["ALLOW", "out/*"], ["DISALLOW", "*"]], \
           [["CREATE", "out/*"], ["ALLOW", "*"]]


def valid_layout(rng, W, nsteps=None, functionaries=None, thresholds=None, readme="", expires=None,
                 names=None, all_keys_in_table=True, extra_table_keys=(), ruleset=None):
    """returns (layout_doc, plan) where plan[i] = {"name","threshold","keys":[names authorised]}"""
    functionaries = functionaries or ["ed4", "ed5", "ed6", "edp2", "ec-b"]
    if nsteps is None:
        nsteps = rng.choice([1, 1, 2, 3])
    names = names or rng.sample(STEP_NAMES, nsteps)
    plan, steps = [], []
    for i in range(nsteps):
        thr = thresholds[i] if thresholds else rng.choice([1, 1, 1, 2])
        nk = max(thr, 1) + rng.choice([0, 0, 1])
        ks = rng.sample(functionaries, min(nk, len(functionaries)))
        mr, pr = rules_for(rng, i, names, ruleset)
        steps.append(scen.mk_step(names[i], thr, [W.kid(k) for k in ks], ["cc", f"-o{i}"], mr, pr))
        plan.append({"name": names[i], "threshold": thr, "keys": ks})
    table = sorted(set(k for p in plan for k in p["keys"]) | set(extra_table_keys))
    if all_keys_in_table is True:
        pass
    layout = scen.mk_layout(W, table, steps, [], expires, readme)
    return layout, plan


def valid_links(rng, W, plan, extra_signers=0):
    """for each step: links by the first max(1,threshold) authorised keys, all agreeing.
    returns list of dicts {"step","key","doc","signers"}"""
    links = []
    for i, p in enumerate(plan):
        mats, prods = chain_artifacts(i)
        n = max(1, p["threshold"]) + extra_signers
        for k in p["keys"][:n]:
            doc = scen.mk_link(p["name"], copy.deepcopy(mats), copy.deepcopy(prods), ["cc", f"-o{i}"],
                               {"stdout": "", "stderr": "", "return-value": 0}, None)
            links.append({"step": p["name"], "key": k, "doc": doc, "signers": [k]})
    return links


def expected_summary(plan):
    m0, _ = chain_artifacts(0)
    _, pl = chain_artifacts(len(plan) - 1)
    return m0, pl


def assemble(W, layout_wire, links_wired, prefix=""):
    """files dict for the verify op from (link spec, wire) pairs"""
    files = {}
    for l, w in links_wired:
        fname = l.get("filename") or f"{l['step']}.{W.pfx(l.get('file_key', l['key']))}.link"
        files[prefix + fname] = scen.dumps(w)
    return files


# ---- delegation trees ---------------------------------------------------------------------
#
# node = {"layout": doc, "signers": [names], "steps": [ {"name", "threshold", "auth":[names],
#           "evidence": [ {"key": k, "kind": "link", "doc": d, "signers": [..]} |
#                         {"key": k, "kind": "layout", "node": child, ("dir": override)} ] } ]}


def leaf_link(name, i, cmd=None, byp=None):
    mats, prods = chain_artifacts(i)
    return scen.mk_link(name, mats, prods, cmd if cmd is not None else ["cc", f"-o{i}"],
                        byp if byp is not None else {"stdout": f"out{i}", "stderr": "", "return-value": 0}, None)


def make_node(rng, W, depth, owner_signers, functionaries=None, nsteps=None, expires=None, delegate_prob=0.5,
              names=None, rules=True):
    """a valid delegation tree of the given depth (depth 0 = plain layout with links)"""
    functionaries = functionaries or ["ed4", "ed5", "ed6", "edp2", "ec-b"]
    nsteps = nsteps or rng.choice([1, 2, 3])
    names = names or rng.sample(STEP_NAMES[:9], nsteps)
    steps, docs = [], []
    table = set()
    for i in range(nsteps):
        thr = 1
        ks = rng.sample(functionaries, rng.choice([1, 2]))
        table |= set(ks)
        ev = []
        k = ks[0]
        if depth > 0 and rng.random() < delegate_prob:
            child = make_node(rng, W, depth - 1, [k], functionaries, None, None, delegate_prob, None, rules)
            # the child's summary must look like step i of the parent chain: rename inner artifacts accordingly
            ev.append({"key": k, "kind": "layout", "node": child})
        else:
            ev.append({"key": k, "kind": "link", "doc": leaf_link(names[i], i), "signers": [k]})
        mr, pr = (rules_for(rng, i, names) if rules and all(e["kind"] == "link" for e in ev) and
                  (i == 0 or all(e["kind"] == "link" for e in steps[i - 1]["evidence"])) else ([["ALLOW", "*"]], [["ALLOW", "*"]]))
        steps.append({"name": names[i], "threshold": thr, "auth": ks, "evidence": ev})
        docs.append(scen.mk_step(names[i], thr, [W.kid(x) for x in ks], ["cc", f"-o{i}"], mr, pr))
    layout = scen.mk_layout(W, sorted(table), docs, [], expires, "")
    return {"layout": layout, "signers": list(owner_signers), "steps": steps}


def collect_requests(node, reqs):
    """append (doc, signers, via) for every document of the tree; remember request indices in the tree"""
    node["req"] = len(reqs)
    reqs.append((node["layout"], node["signers"], "new"))
    for st in node["steps"]:
        for e in st["evidence"]:
            if e["kind"] == "link":
                e["req"] = len(reqs)
                reqs.append((e["doc"], e["signers"], "new"))
            else:
                collect_requests(e["node"], reqs)


def tree_files(W, node, wires, prefix="", post=None):
    """files of the link directory below `prefix` for the evidence of `node`.
    post(e_or_node, wire) -> wire lets the caller tamper with individual documents."""
    files = {}
    for st in node["steps"]:
        for e in st["evidence"]:
            fkey = e.get("file_key", e["key"])
            fname = f"{st['name']}.{W.pfx(fkey)}.link"
            if e.get("absent"):
                continue
            if e["kind"] == "link":
                w = wires[e["req"]]
                if post:
                    w = post(e, w)
                files[prefix + fname] = scen.dumps(w)
            else:
                w = wires[e["node"]["req"]]
                if post:
                    w = post(e, w)
                files[prefix + fname] = scen.dumps(w)
                sub = e.get("dir") or f"{st['name']}.{W.pfx(e['key'])}"
                files.update(tree_files(W, e["node"], wires, prefix + sub + "/", post))
    return files


def evidence_link(e, step_name):
    """the link a piece of evidence contributes to its parent (as a dict of link fields)"""
    if e["kind"] == "link":
        d = e["doc"]
        return {"name": d["name"], "materials": d["materials"], "products": d["products"], "command": d["command"],
                "byproducts": d["byproducts"]}
    return summary_of(e["node"], step_name)


def summary_of(node, name):
    steps = node["steps"]
    if not steps:
        return {"name": name, "materials": {}, "products": {}, "command": [], "byproducts": {}}
    first = evidence_link(steps[0]["evidence"][0], steps[0]["name"])
    last = evidence_link(steps[-1]["evidence"][0], steps[-1]["name"])
    return {"name": name, "materials": first["materials"], "products": last["products"], "command": last["command"],
            "byproducts": last["byproducts"]}
