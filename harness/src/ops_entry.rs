//! C14: feed attacker-controllable bytes to a named entry point and, when the
//! input is accepted, to everything that would next be done with the value.

use std::str::FromStr;

use in_toto::crypto::{
    KeyId, PrivateKey, PublicKey, Signature, SignatureValue,
};
use in_toto::interchange::{DataInterchange, Json};
use in_toto::models::inspection::Inspection;
use in_toto::models::rule::ArtifactRule;
use in_toto::models::step::Step;
use in_toto::models::{
    verif_hooks, LayoutMetadata, LinkMetadata, Metablock, MetablockBuilder,
    MetadataType, MetadataWrapper, PredicateWrapper, StatementWrapper,
};
use serde_json::{json, Value};

use crate::keys::scheme_of;
use crate::util::{bytes_of, clip, guarded};

fn fixed_sig() -> Signature {
    serde_json::from_value(json!({
        "keyid": "00".repeat(32),
        "sig": "ab".repeat(64),
    }))
    .unwrap()
}

fn after_pubkey(k: &PublicKey) {
    let _ = k.key_id().prefix();
    let _ = k.as_spki();
    let _ = k.verify(b"message", &fixed_sig());
    let _ = serde_json::to_string(k);
}

fn after_metablock(mb: &Metablock) {
    for s in &mb.signatures {
        let _ = s.key_id().prefix();
    }
    let _ = mb.metadata.to_bytes();
    let none: Vec<PublicKey> = Vec::new();
    let _ = mb.verify(1, none.iter());
    if let MetadataWrapper::Layout(l) = &mb.metadata {
        let keys: Vec<&PublicKey> = l.keys.values().collect();
        let _ = mb.verify(1, keys.into_iter());
        for k in l.keys.values() {
            after_pubkey(k);
        }
    }
    let _ = serde_json::to_string(mb);
    let _ = serde_json::to_string_pretty(mb);
}

/// returns "ok" if the entry point accepted the input, "err" if it rejected it
fn run_ep(ep: &str, data: &[u8]) -> Result<&'static str, String> {
    let (name, arg) = match ep.split_once(':') {
        Some((a, b)) => (a, b),
        None => (ep, ""),
    };
    macro_rules! js {
        ($t:ty, $after:expr) => {{
            let r: Result<$t, _> = serde_json::from_slice(data);
            match r {
                Ok(v) => {
                    #[allow(clippy::redundant_closure_call)]
                    ($after)(&v);
                    Ok("ok")
                }
                Err(_) => Ok("err"),
            }
        }};
    }
    match name {
        "metablock" => js!(Metablock, |m: &Metablock| after_metablock(m)),
        "metablock_str" => match std::str::from_utf8(data) {
            Ok(s) => match serde_json::from_str::<Metablock>(s) {
                Ok(m) => {
                    after_metablock(&m);
                    Ok("ok")
                }
                Err(_) => Ok("err"),
            },
            Err(_) => Ok("err"),
        },
        "layout" => js!(LayoutMetadata, |l: &LayoutMetadata| {
            let _ = serde_json::to_string(l);
            let _ = Json::canonicalize(&Json::serialize(l).unwrap_or(Value::Null));
        }),
        "link" => js!(LinkMetadata, |l: &LinkMetadata| {
            let _ = serde_json::to_string(l);
            let _ = Json::canonicalize(&Json::serialize(l).unwrap_or(Value::Null));
        }),
        "wrapper_try" => match MetadataWrapper::try_from_bytes(data) {
            Ok(w) => {
                let _ = w.to_bytes();
                Ok("ok")
            }
            Err(_) => Ok("err"),
        },
        "wrapper_layout" => {
            match MetadataWrapper::from_bytes(data, MetadataType::Layout) {
                Ok(w) => {
                    let _ = w.to_bytes();
                    Ok("ok")
                }
                Err(_) => Ok("err"),
            }
        }
        "wrapper_link" => {
            match MetadataWrapper::from_bytes(data, MetadataType::Link) {
                Ok(w) => {
                    let _ = w.to_bytes();
                    Ok("ok")
                }
                Err(_) => Ok("err"),
            }
        }
        "raw_builder" => match MetablockBuilder::from_raw_metadata(data) {
            Ok(b) => {
                let none: Vec<&PrivateKey> = Vec::new();
                match b.sign(&none) {
                    Ok(b) => {
                        let mb = b.build();
                        after_metablock(&mb);
                        Ok("ok")
                    }
                    Err(_) => Ok("err"),
                }
            }
            Err(_) => Ok("err"),
        },
        "pubkey_json" => js!(PublicKey, |k: &PublicKey| after_pubkey(k)),
        "signature_json" => js!(Signature, |s: &Signature| {
            let _ = s.key_id().prefix();
            let _ = serde_json::to_string(s);
        }),
        "keyid_json" => js!(KeyId, |k: &KeyId| {
            let _ = k.prefix();
        }),
        "rule_json" => js!(ArtifactRule, |r: &ArtifactRule| {
            let _ = serde_json::to_string(r);
        }),
        "step_json" => js!(Step, |s: &Step| {
            let _ = serde_json::to_string(s);
        }),
        "inspection_json" => js!(Inspection, |s: &Inspection| {
            let _ = serde_json::to_string(s);
        }),
        "statement_json" => match serde_json::from_slice::<StatementWrapper>(data) {
            Ok(w) => {
                let _ = w.into_trait().to_bytes();
                Ok("ok")
            }
            Err(_) => Ok("err"),
        },
        "predicate_json" => match serde_json::from_slice::<PredicateWrapper>(data) {
            Ok(w) => {
                let _ = w.into_trait().to_bytes();
                Ok("ok")
            }
            Err(_) => Ok("err"),
        },
        "envelope" => match verif_hooks::envelope_file_roundtrip(data) {
            Ok(_) => Ok("ok"),
            Err(_) => Ok("err"),
        },
        "canon" => match serde_json::from_slice::<Value>(data) {
            Ok(v) => match Json::canonicalize(&v) {
                Ok(_) => Ok("ok"),
                Err(_) => Ok("err"),
            },
            Err(_) => Ok("err"),
        },
        "spki" => match PublicKey::from_spki(data, scheme_of(arg)) {
            Ok(k) => {
                after_pubkey(&k);
                Ok("ok")
            }
            Err(_) => Ok("err"),
        },
        "pem_spki" => match std::str::from_utf8(data) {
            Ok(s) => match PublicKey::from_pem_spki(s, scheme_of(arg)) {
                Ok(k) => {
                    after_pubkey(&k);
                    Ok("ok")
                }
                Err(_) => Ok("err"),
            },
            Err(_) => Ok("err"),
        },
        "ed_pub" => match PublicKey::from_ed25519(data.to_vec()) {
            Ok(k) => {
                after_pubkey(&k);
                Ok("ok")
            }
            Err(_) => Ok("err"),
        },
        "ecdsa_pub" => match PublicKey::from_ecdsa(data.to_vec()) {
            Ok(k) => {
                after_pubkey(&k);
                Ok("ok")
            }
            Err(_) => Ok("err"),
        },
        "pk8" => match PrivateKey::from_pkcs8(data, scheme_of(arg)) {
            Ok(k) => {
                let _ = k.sign(b"message");
                Ok("ok")
            }
            Err(_) => Ok("err"),
        },
        "ed_keypair" => match PrivateKey::from_ed25519(data) {
            Ok(k) => {
                let _ = k.sign(b"message");
                Ok("ok")
            }
            Err(_) => Ok("err"),
        },
        "sig_hex" => match std::str::from_utf8(data) {
            Ok(s) => match SignatureValue::from_hex(s) {
                Ok(_) => Ok("ok"),
                Err(_) => Ok("err"),
            },
            Err(_) => Ok("err"),
        },
        "keyid_str" => match std::str::from_utf8(data) {
            Ok(s) => match KeyId::from_str(s) {
                Ok(k) => {
                    let _ = k.prefix();
                    Ok("ok")
                }
                Err(_) => Ok("err"),
            },
            Err(_) => Ok("err"),
        },
        "pae_unpack" => match verif_hooks::pae_unpack(data) {
            Ok(_) => Ok("ok"),
            Err(_) => Ok("err"),
        },
        "pae_try_unpack" => match verif_hooks::pae_try_unpack(data) {
            Ok(_) => Ok("ok"),
            Err(_) => Ok("err"),
        },
        _ => Err(format!("unknown entry point {}", ep)),
    }
}

/// {ep, data: text|{hex}}
pub fn entry(case: &Value) -> Value {
    let ep = case["ep"].as_str().unwrap_or("");
    let data = bytes_of(&case["data"]);
    match guarded(|| run_ep(ep, &data)) {
        Ok(Ok(s)) => json!({"r": s}),
        Ok(Err(e)) => json!({"harness_error": clip(&e)}),
        Err(p) => json!({"r": "panic", "panic": p}),
    }
}
