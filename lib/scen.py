"""Document builders (wire schema of layouts / links), signing through the executor,
post-signing edits, and scenario assembly for the `verify` op."""
import copy
import datetime
import json

import common

D1 = "01" * 32
D2 = "02" * 32
D3 = "03" * 32


def digest(tag, alg="sha256"):
    n = 64 if alg == "sha256" else 128
    return {alg: (("%02x" % (tag % 256)) * (n // 2))}


class World:
    """key pool facts obtained from the executor (ids and public-key JSON)."""

    def __init__(self, binpath):
        self.bin = binpath
        self.ki = common.keyinfo(binpath)

    def kid(self, name):
        return self.ki[name]["keyid"]

    def pfx(self, name):
        return self.ki[name]["keyid"][:8]

    def pub(self, name):
        return copy.deepcopy(self.ki[name]["pub"])


def iso(dt):
    return dt.strftime("%Y-%m-%dT%H:%M:%SZ")


def future(days=1):
    return iso(datetime.datetime.utcnow() + datetime.timedelta(days=days))


def mk_step(name, threshold=1, pubkeys=(), cmd=(), mats=(), prods=()):
    return {"_type": "step", "name": name, "threshold": threshold, "pubkeys": list(pubkeys),
            "expected_command": list(cmd), "expected_materials": [list(r) for r in mats],
            "expected_products": [list(r) for r in prods]}


def mk_inspection(name, run=(), mats=(), prods=()):
    return {"_type": "inspection", "name": name, "run": list(run),
            "expected_materials": [list(r) for r in mats], "expected_products": [list(r) for r in prods]}


def mk_layout(W, key_names=(), steps=(), inspect=(), expires=None, readme="", keys=None):
    if keys is None:
        keys = {W.kid(n): W.pub(n) for n in key_names}
    return {"_type": "layout", "expires": expires or future(), "readme": readme, "keys": keys,
            "steps": list(steps), "inspect": list(inspect)}


def mk_link(name, materials=None, products=None, command=(), byproducts=None, environment=None):
    return {"_type": "link", "name": name, "materials": materials or {}, "products": products or {},
            "command": list(command), "byproducts": byproducts if byproducts is not None else {},
            "environment": environment}


def sign_all(binpath, reqs, nproc=None, tolerate=False):
    """reqs: list of (signed_doc, [signer names], via) -> list of wire documents (dicts).
    A request the library refuses to sign raises Inconclusive (the generators only emit
    signable documents)."""
    cases = [{"op": "sign", "signed": d, "signers": list(s), "via": via} for d, s, via in reqs]
    obs = common.run_sharded(binpath, cases, nproc=nproc or common.NPROC) if len(cases) > 64 \
        else common.run_batch(binpath, cases)
    out = []
    for c, o in zip(cases, obs):
        if "ok" not in o and tolerate and "crash" not in o and "watchdog" not in o and "missing" not in o:
            out.append(None)         # the caller deals with documents the library would not sign
            continue
        if "ok" not in o:
            raise common.Inconclusive(f"library refused to sign a generated document: {str(o)[:400]} "
                                      f"doc={json.dumps(c['signed'])[:400]}")
        out.append(o["ok"]["wire"])
    return out


def dumps(wire):
    return json.dumps(wire, ensure_ascii=False)


# ---- post-signing edits of the signature list -------------------------------------------


def sig_edit(wire, kind, rng, other_sig=None, other_keyid=None):
    """apply one signature corruption to signatures[0..]; returns a description"""
    w = wire
    sigs = w["signatures"]
    if not sigs:
        return "none"
    i = rng.randrange(len(sigs))
    s = sigs[i]
    if kind == "flip":
        b = bytearray(bytes.fromhex(s["sig"]))
        pos = rng.randrange(len(b) * 8)
        b[pos // 8] ^= 1 << (pos % 8)
        s["sig"] = b.hex()
        return f"flip bit {pos} of sig {i}"
    if kind == "truncate":
        s["sig"] = s["sig"][:-2 * rng.randrange(1, max(2, len(s["sig"]) // 2))]
        return f"truncate sig {i}"
    if kind == "empty":
        s["sig"] = ""
        return f"empty sig {i}"
    if kind == "relabel":
        s["keyid"] = other_keyid
        return f"relabel sig {i}"
    if kind == "other_content":
        s["sig"] = other_sig
        return f"sig {i} from other content"
    if kind == "drop":
        del sigs[i]
        return f"drop sig {i}"
    if kind == "zero":
        s["sig"] = "00" * (len(s["sig"]) // 2)
        return f"zero sig {i}"
    raise ValueError(kind)


# ---- single-field edits of the signed part ----------------------------------------------


def leaf_paths(doc, path=()):
    """all JSON pointers (as tuples) of leaves and containers of doc"""
    yield path
    if isinstance(doc, dict):
        for k in doc:
            yield from leaf_paths(doc[k], path + (k,))
    elif isinstance(doc, list):
        for i, x in enumerate(doc):
            yield from leaf_paths(x, path + (i,))


def get_at(doc, path):
    for p in path:
        doc = doc[p]
    return doc


def set_at(doc, path, val):
    for p in path[:-1]:
        doc = doc[p]
    doc[path[-1]] = val


def del_at(doc, path):
    for p in path[:-1]:
        doc = doc[p]
    del doc[path[-1]]


def mutate_string(s, rng):
    k = rng.randrange(6)
    if s == "" or k == 0:
        return s + rng.choice(["x", " ", "\n", "\\", '"', "\\n", "é"])
    i = rng.randrange(len(s))
    if k == 1:
        return s[:i] + s[i + 1:]
    if k == 2:
        c = s[i]
        r = chr(ord(c) ^ 1) if ord(c) > 0x21 else "x"
        return s[:i] + r + s[i + 1:]
    if k == 3:
        return s.swapcase() if s.swapcase() != s else s + "_"
    if k == 4:
        return s[:i] + rng.choice(["\n", "\\n", "\t", " "]) + s[i:]
    return s[::-1] if s[::-1] != s else s + "y"


ESC = {"n": "\n", "t": "\t", "r": "\r", "b": "\b", "f": "\f", "/": "/"}


def respellings(v):
    """strings that a sloppy (un)escaping step could confuse with v: a backslash-letter pair replaced by the
    character it would denote as a JSON escape, and the reverse"""
    out = []
    for i in range(len(v) - 1):
        if v[i] == "\\" and v[i + 1] in ESC:
            out.append(v[:i] + ESC[v[i + 1]] + v[i + 2:])
        if v[i] == "\\" and v[i + 1] == "u" and len(v) >= i + 6:
            try:
                out.append(v[:i] + chr(int(v[i + 2:i + 6], 16)) + v[i + 6:])
            except ValueError:
                pass
    for ch, letter in (("\n", "n"), ("\t", "t"), ("\r", "r")):
        i = v.find(ch)
        if i >= 0:
            out.append(v[:i] + "\\" + letter + v[i + 1:])
    out = [x for x in out if x != v][:3]
    # the two characters path-handling code likes to confuse: a separator and a backslash (another string, another value)
    if "/" in v and not v.startswith(("http", "-----")):
        out.append(v.replace("/", "\\", 1))
        if v.count("/") > 1:
            out.append(v.replace("/", "\\"))
    if "\\" in v:
        out.append(v.replace("\\", "/", 1))
    return [x for x in out if x != v]


def path_respellings(p):
    """other spellings of the same location (lexically equivalent, but different strings)"""
    if not p or p.startswith("/"):
        return []
    out = ["./" + p, "x/../" + p, p + "/"]
    if "/" in p:
        out.append(p.replace("/", "//", 1))
        out.append(p.replace("/", "/./", 1))
    return out


def match_prefix_variants(rule):
    """a MATCH rule with one optional IN prefix added (empty or not), emptied or removed"""
    out = []
    r = list(rule)
    try:
        w = r.index("WITH")
        f = len(r) - 2          # "FROM" position
    except ValueError:
        return out
    if r[2] == "IN" and w == 4:
        out.append(r[:2] + r[4:])                    # source prefix removed
        out.append(r[:3] + [""] + r[4:])             # source prefix emptied
    elif w == 2:
        out.append(r[:2] + ["IN", ""] + r[2:])       # empty source prefix added
        out.append(r[:2] + ["IN", "src"] + r[2:])
    if r[f - 2] == "IN" and f - 2 > w:
        out.append(r[:f - 2] + r[f:])
        out.append(r[:f - 1] + [""] + r[f:])
    elif r[f] == "FROM":
        out.append(r[:f] + ["IN", ""] + r[f:])
        out.append(r[:f] + ["IN", "dst"] + r[f:])
    return [x for x in out if x != rule]


SPECIAL_EDITS = ("respell", "match_prefix", "respell_key", "tagged_spelling", "add_member", "insert_empty", "time_shift")


def time_shifts(v):
    """a point in time moved by a calendar unit (same notation): another point in time"""
    import re
    m = re.fullmatch(r"(\d{4})-(\d{2})-(\d{2})T(\d{2}):(\d{2}):(\d{2})Z", v)
    if not m:
        return []
    y, mo, d, h, mi, sec = (int(x) for x in m.groups())
    out = []
    for dy in (1, -1, 10):
        if 1 <= y + dy <= 9999 and not (mo == 2 and d == 29):
            out.append("%04d-%02d-%02dT%02d:%02d:%02dZ" % (y + dy, mo, d, h, mi, sec))
    out.append("%04d-%02d-%02dT%02d:%02d:%02dZ" % (y, mo % 12 + 1, min(d, 28), h, mi, sec))
    out.append("%04d-%02d-%02dT%02d:%02d:%02dZ" % (y, mo, d % 28 + 1, h, mi, sec))
    out.append("%04d-%02d-%02dT%02d:%02d:%02dZ" % (y, mo, d, (h + 12) % 24, mi, sec))
    return [x for x in out if x != v]


def year_edge_instants(first=2027, last=2060):
    """days around New Year whose ISO week-numbering year equals that of the same day one calendar year later or
    earlier (a date written with the week-numbering year would not tell them apart), all in the future"""
    out = []
    for y in range(first, last):
        for mo, d in ((12, 29), (12, 30), (12, 31), (1, 1), (1, 2), (1, 3)):
            a = datetime.date(y, mo, d)
            for dy in (1, -1):
                b = datetime.date(y + dy, mo, d)
                if b.year >= first and a.isocalendar()[0] == b.isocalendar()[0]:
                    out.append("%04d-%02d-%02dT00:00:00Z" % (y, mo, d))
                    break
    return sorted(set(out))


def single_edits(signed, rng, limit=None):
    """enumerate single-field edits of a signed document: yields (description, new_doc).
    Every leaf and every container of the document is visited (the enumerator walks the
    document; `limit` then samples from the complete list)."""
    edits = []
    for path in leaf_paths(signed):
        if not path:
            continue
        v = get_at(signed, path)
        parent = get_at(signed, path[:-1])
        if isinstance(v, bool) or v is None:
            edits.append((path, "set", "x" if v is None else (not v)))
        elif isinstance(v, int):
            edits.append((path, "set", v + 1))
            if v > 0:
                edits.append((path, "set", v - 1))
        elif isinstance(v, str):
            edits.append((path, "set", mutate_string(v, rng)))
            for alt in time_shifts(v):
                edits.append((path, "time_shift", alt))
            for alt in respellings(v):
                edits.append((path, "respell", alt))
            if path[-1] in ("scheme", "keytype"):
                # the tagged spelling of an enumeration value the wire format also knows as a plain string
                edits.append((path, "tagged_spelling", {"Unknown": v}))
        elif isinstance(v, list):
            if v and v[0] == "MATCH" and all(isinstance(x, str) for x in v):
                for alt in match_prefix_variants(v):
                    edits.append((path, "match_prefix", alt))
            if all(isinstance(x, str) for x in v) and path[-1] in ("command", "run", "expected_command"):
                # an empty word more or less: another argument list
                edits.append((path, "insert_empty", rng.randrange(len(v) + 1)))
                if "" in v:
                    edits.append((path, "del_elem", v.index("")))
            if v:
                edits.append((path, "del_elem", rng.randrange(len(v))))
                edits.append((path, "dup_elem", rng.randrange(len(v))))
                if len(v) > 1:
                    edits.append((path, "swap_elem", rng.randrange(len(v) - 1)))
            else:
                edits.append((path, "append", None))
        elif isinstance(v, dict):
            if path and path[-1] in ("materials", "products", "subject"):
                # an additional artifact: without any digest, with one
                nk = rng.choice(["added.bin", "src/added.c", "zz/new"])
                if nk not in v:
                    edits.append((path, "add_member", (nk, {})))
                    edits.append((path, "add_member", (nk, digest(0xAD))))
            elif path and path[-1] == "keys" and v:
                # one more key-table entry: an existing key once more under a made-up identifier
                if "ab" * 32 not in v:
                    edits.append((path, "add_member", ("ab" * 32, v[sorted(v)[0]])))
            elif path and path[-1] in ("byproducts", "environment", "keyval"):
                # also names that look like the model's own field names in another spelling
                nm = rng.choice(["zz-added", "return_value", "Stdout", "std-err", "keyid_hash_algorithms", "public "])
                if nm not in v:
                    edits.append((path, "add_member", (nm, "x")))
            if v:
                edits.append((path, "del_key", rng.choice(sorted(v))))
                edits.append((path, "rename_key", rng.choice(sorted(v))))
                if path and path[-1] in ("materials", "products", "subject"):
                    # the same artifact under another spelling of its path (a different key => a different value)
                    k = rng.choice(sorted(v))
                    for alt in path_respellings(k):
                        if alt not in v:
                            edits.append((path, "respell_key", (k, alt)))
        if isinstance(parent, dict):
            edits.append((path, "delete_member", None))
    if limit is not None and len(edits) > limit:
        special = [e for e in edits if e[1] in SPECIAL_EDITS]
        rest = [e for e in edits if e[1] not in SPECIAL_EDITS]
        keep = rng.sample(special, min(len(special), max(1, limit // 3))) if special else []
        edits = keep + rng.sample(rest, min(len(rest), limit - len(keep)))
        rng.shuffle(edits)
    for path, kind, arg in edits:
        d = copy.deepcopy(signed)
        try:
            if kind in ("set", "respell", "match_prefix", "tagged_spelling", "time_shift"):
                set_at(d, path, arg)
            elif kind == "add_member":
                get_at(d, path)[arg[0]] = copy.deepcopy(arg[1])
            elif kind == "del_elem":
                del get_at(d, path)[arg]
            elif kind == "insert_empty":
                get_at(d, path).insert(arg, "")
            elif kind == "dup_elem":
                lst = get_at(d, path)
                lst.insert(arg, copy.deepcopy(lst[arg]))
            elif kind == "swap_elem":
                lst = get_at(d, path)
                if lst[arg] == lst[arg + 1]:
                    continue
                lst[arg], lst[arg + 1] = lst[arg + 1], lst[arg]
            elif kind == "append":
                lst = get_at(d, path)
                lst.append("x")
            elif kind == "del_key":
                del get_at(d, path)[arg]
            elif kind == "rename_key":
                m = get_at(d, path)
                m[arg + "x"] = m.pop(arg)
            elif kind == "respell_key":
                m = get_at(d, path)
                m[arg[1]] = m.pop(arg[0])
            elif kind == "delete_member":
                del_at(d, path)
        except (KeyError, IndexError, TypeError):
            continue
        if d != signed:
            yield (f"{kind}@/{'/'.join(map(str, path))}", d)


# ---- verify-op scenarios ------------------------------------------------------------------


def link_filename(W, step, keyname):
    return f"{step}.{W.pfx(keyname)}.link"


def verify_case(layout_wire, caller_keys, files, work_files=None, step_name=None, reps=1,
                orig_layout=None, probe_ids=None, meta=None, cid=None):
    c = {"op": "verify", "layout": layout_wire if isinstance(layout_wire, str) else dumps(layout_wire),
         "caller_keys": caller_keys, "files": files, "work_files": work_files or {}, "step_name": step_name,
         "reps": reps}
    if orig_layout is not None:
        c["orig_layout"] = orig_layout if isinstance(orig_layout, str) else dumps(orig_layout)
    if probe_ids is not None:
        c["probe_ids"] = probe_ids
    if meta is not None:
        c["meta"] = meta
    if cid is not None:
        c["id"] = cid
    return c


def verdicts(obs):
    """list of verdict strings of the repetitions of a verify observation"""
    return [r.get("v") for r in obs.get("runs", [])]


def harness_failed(obs):
    return any(k in obs for k in ("crash", "watchdog", "missing", "harness_error")) or "runs" not in obs


def unknown_scheme_keys(binpath):
    """RSA public keys declared with a signature scheme the library does not know: such a key can be listed and
    authorised, but nothing can validly verify under it.  Returns [{"pub": json, "keyid": id}]"""
    W = World(binpath)
    paths = []
    for name, scheme in (("rsa-2048-a", "rsassa-pss-md5"), ("rsa-2048-b", "ed448"), ("rsa-3072-a", "")):
        pub = W.pub(name)
        pub.pop("keyid", None)
        pub["scheme"] = {"Unknown": scheme}
        paths.append({"how": "json", "value": pub})
    o = common.run_batch(binpath, [{"op": "keys12", "paths": paths}])[0]
    out = []
    for p in o.get("paths", []):
        if "ok" in p:
            out.append({"pub": p["ok"]["pub"], "keyid": p["ok"]["keyid"]})
    return out


def colliding_descriptions(W, ka, kb, budget=400000):
    """two descriptions (public-key JSON incl. `keyid`) of the DIFFERENT keys ka and kb whose identifiers share their first
    eight hex digits; found by a search over the hash-algorithm list, which is part of a key's description.
    Returns (pub_a, id_a, pub_b, id_b) or None."""
    import hashlib
    import jsongen

    def template(k):
        p = W.pub(k)
        d = {"keytype": p["keytype"], "scheme": p["scheme"], "keyval": {"public": p["keyval"]["public"]}, "keyid_hash_algorithms": ["sha256", "@TAG@"]}
        return jsongen.olpc_canon(d)
    ta, tb = template(ka), template(kb)
    seen = {}
    for i in range(budget):
        ia = hashlib.sha256(ta.replace("@TAG@", f"a{i}").encode()).hexdigest()
        seen[ia[:8]] = (i, ia)
        ib = hashlib.sha256(tb.replace("@TAG@", f"b{i}").encode()).hexdigest()
        if ib[:8] in seen:
            i_a, id_a = seen[ib[:8]]
            pub_a = dict(W.pub(ka), keyid=id_a, keyid_hash_algorithms=["sha256", f"a{i_a}"])
            pub_b = dict(W.pub(kb), keyid=ib, keyid_hash_algorithms=["sha256", f"b{i}"])
            return pub_a, id_a, pub_b, ib
    return None


def twin_links(name="twin"):
    """pairs (A, B) of unequal link documents that coincide under a canonical writer which fails to escape a quote or a
    backslash in a member NAME (artifact path, environment name, by-product name) or in a value"""
    ee, d11 = "ee" * 32, "11" * 32
    base = lambda **kw: dict(mk_link(name, {"a": digest(1)}, {"b": digest(2)}, ["c"], {"stdout": "o", "return-value": 0}, {"E": "v"}), **kw)
    return [
        (base(products={'foo":{"sha256":"' + ee + '"},"notes.txt': {"sha256": d11}}), base(products={"foo": {"sha256": ee}, "notes.txt": {"sha256": d11}})),
        (base(environment={'K":"v","L': "w"}), base(environment={"K": "v", "L": "w"})),
        (base(materials={'m\\":{"sha256":"' + ee + '"},"n': {"sha256": d11}}), base(materials={"m\\": {"sha256": ee}, "n": {"sha256": d11}})),
        (base(command=['a","b']), base(command=["a", "b"])),
    ]
