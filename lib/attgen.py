"""Generators for attestation statements and predicates, straight from the wire schemas, and a
Python schema model deciding which format versions may accept a document."""
import copy

import docgen
import scen

P_LINK = "https://in-toto.io/Link/v0.2"
P_SLSA1 = "https://slsa.dev/provenance/v0.1"
P_SLSA2 = "https://slsa.dev/provenance/v0.2"
S_NAIVE = "link"
S_V01 = "https://in-toto.io/Statement/v0.1"
PRED_TYPES = [P_LINK, P_SLSA1, P_SLSA2]

TIMESTAMPS = ["2020-08-19T08:38:00Z", "1985-04-12T23:20:50.52Z", "1996-12-19T16:39:57-08:00", "2024-02-29T12:00:00+05:30",
              "2020-01-01T00:00:00.999999999Z", "1990-12-31T23:59:59Z", "2020-08-19T08:38:00+00:00", "2021-06-30T23:59:59.5+14:00",
              # leap seconds, lower-case / space separators, extreme years and offsets
              "2016-12-31T23:59:60Z", "2016-12-31T23:59:60.25Z", "1990-06-30T23:59:60+00:00", "2015-06-30T19:59:60-04:00",
              "2020-08-19t08:38:00z", "0001-01-01T00:00:00Z", "9999-12-31T23:59:59.999999999Z", "2020-02-29T23:59:59-23:59",
              "2020-08-19T08:38:00.000000001+00:01", "2020-08-19T08:38:00.100Z", "2020-08-19T08:38:00.000Z",
              # instants whose UTC form leaves the four-digit years (the offset carries them over the edge)
              "9999-12-31T23:59:59-01:00", "9999-12-31T23:30:00.5-00:30", "0000-01-01T00:00:00+01:00", "0000-01-01T00:29:59.9+00:30",
              "9999-12-31T22:59:59+01:00", "0000-01-01T01:00:00-01:00"]
BAD_TIMESTAMPS = ["2020-08-19", "yesterday", "2020-13-01T00:00:00Z", "", "2020-08-19T08:38:00"]


PLAIN = [False]     # set while generating predicates that must be decodable (building statements from values)
OTHER_ALGS = ["sha1", "sha384", "md5", "gitCommit", "sha3_256", "SHA256", "Unknown", "blake2b"]


def arts(rng, hostile=0.2, d=None):
    """an artifact map for a statement; now and then one artifact carries (also, or only) a digest under an algorithm
    name other than sha256 / sha512 - accepted or not, the document must stay self-consistent"""
    d = docgen.rand_artifacts(rng, hostile) if d is None else d
    if d and not PLAIN[0] and rng.random() < 0.15:
        p = rng.choice(sorted(d))
        alg = rng.choice(OTHER_ALGS)
        if rng.random() < 0.5:
            d[p] = {alg: "ab" * 20}
        else:
            d[p] = dict(d[p], **{alg: "cd" * 20})
    return d


def subset(rng, d, required=()):
    """random subset of the optional members of d (required ones always kept)"""
    return {k: v for k, v in d.items() if k in required or rng.random() < 0.6}


def gen_metadata(rng, ts=True):
    m = {"buildInvocationId": docgen.hs(rng, 0.3), "completeness": subset(rng, {"arguments": True, "environment": False, "materials": True}),
         "reproducible": rng.choice([True, False])}
    if ts:
        m["buildStartedOn"] = rng.choice(TIMESTAMPS)
        m["buildFinishedOn"] = rng.choice(TIMESTAMPS)
    return subset(rng, m)


def gen_materials(rng):
    out = []
    for _ in range(rng.choice([0, 1, 2])):
        out.append(subset(rng, {"uri": "git+https://example.com/" + docgen.hs(rng, 0.2), "digest": {"sha1": "d6" * 20, docgen.hs(rng, 0.2): "00"}}))
    return out


def gen_slsa1(rng, ts=True):
    d = {"builder": {"id": "https://builder.example/" + docgen.hs(rng, 0.2)},
         "recipe": subset(rng, {"type": "https://example.com/recipe", "definedInMaterial": rng.choice([0, 1, 7, 2 ** 31, 2 ** 63 - 1, 2 ** 63, 2 ** 64 - 1]),
                                "entryPoint": docgen.hs(rng, 0.4), "arguments": docgen.hs(rng, 0.4), "environment": docgen.hs(rng, 0.4)},
                          required=("type",)),
         "metadata": gen_metadata(rng, ts), "materials": gen_materials(rng)}
    return subset(rng, d, required=("builder",))


def gen_slsa2(rng, ts=True):
    cs = subset(rng, {"uri": "git+https://example.com/x", "digest": {"sha1": "ab" * 20}, "entryPoint": docgen.hs(rng, 0.4)})
    d = {"builder": {"id": "https://builder.example/" + docgen.hs(rng, 0.2)}, "buildType": "https://example.com/type@v1",
         "invocation": subset(rng, {"configSource": cs, "parameters": docgen.hs(rng, 0.4), "environment": docgen.hs(rng, 0.4)}),
         "buildConfig": docgen.hs(rng, 0.4), "metadata": gen_metadata(rng, ts), "materials": gen_materials(rng)}
    return subset(rng, d, required=("builder", "buildType"))


def gen_linkv02(rng):
    l = docgen.rand_link(rng, 0.4)
    d = {"name": l["name"], "materials": arts(rng, d=l["materials"]), "env": l["environment"], "command": l["command"], "byproducts": l["byproducts"]}
    if rng.random() < 0.2:
        del d["env"]
    return d


def gen_predicate(rng, ts=True):
    k = rng.randrange(3)
    if k == 0:
        return P_LINK, gen_linkv02(rng)
    if k == 1:
        return P_SLSA1, gen_slsa1(rng, ts)
    return P_SLSA2, gen_slsa2(rng, ts)


def gen_naive(rng):
    l = docgen.rand_link(rng, 0.4)
    d = {"_type": S_NAIVE, "name": l["name"], "materials": arts(rng, d=l["materials"]), "products": arts(rng, d=l["products"]), "env": l["environment"],
         "command": l["command"], "byproducts": l["byproducts"]}
    if rng.random() < 0.15:
        del d["env"]
    return d


def gen_v01(rng, ts=True, declared=None):
    actual, pred = gen_predicate(rng, ts)
    return {"_type": S_V01, "subject": arts(rng, 0.1), "predicateType": declared or actual, "predicate": pred}, actual


def mutate(rng, doc):
    """schema-level mutations: unknown extra field, dropped required field, wrong type, bad timestamp"""
    d = copy.deepcopy(doc)
    k = rng.randrange(5)
    paths = [p for p in scen.leaf_paths(d) if p]
    if k == 0:
        # unknown extra member somewhere (schemas are closed)
        cont = [p for p in [()] + paths if isinstance(scen.get_at(d, p), dict)]
        p = rng.choice(cont)
        scen.get_at(d, p)["unknownField"] = 1
        return d, "extra_field"
    if k == 1 and paths:
        p = rng.choice(paths)
        if isinstance(scen.get_at(d, p[:-1]), dict):
            scen.del_at(d, p)
            return d, "dropped_member"
    if k == 2 and paths:
        p = rng.choice(paths)
        v = scen.get_at(d, p)
        scen.set_at(d, p, 7 if isinstance(v, str) else "seven")
        return d, "wrong_type"
    if k == 3:
        for p in paths:
            if p[-1] in ("buildStartedOn", "buildFinishedOn"):
                scen.set_at(d, p, rng.choice(BAD_TIMESTAMPS))
                return d, "bad_timestamp"
    if k == 4 and "_type" in d:
        d["_type"] = rng.choice(["link", S_V01, "layout", "https://in-toto.io/Statement/v1", ""])
        return d, "type_string"
    return d, "unchanged"
