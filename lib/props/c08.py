"""C08 — inspections run only after a layout's steps verify, and their failure is fatal.

Fault enumeration: failing stage x inspection outcome x inspection rule set x number of
inspections x level (top-level / delegated layout) is enumerated completely.  The probe is the
inspection command itself: it appends a tag to a sentinel file, snapshots the working directory,
performs its file operation and exits with the chosen status.  No hook inside the verifier.
"""
import copy
import itertools
import json

import common
import pipeline
import scen

PROP = "C08"
STAGES = ["none", "bad_owner_signature", "expired", "missing_link", "unauthorised_link", "corrupt_link_signature",
          "threshold_unmet", "disagreeing_links", "failing_step_rule", "failing_step_rule_match_from_inspection",
          "failing_step_rule_match_from_undefined", "failing_last_step_rule", "sublayout_expired", "sublayout_missing_link",
          "sublayout_rule", "surplus_sublayout_missing_link", "surplus_sublayout_expired",
          # two links whose only difference is an additional artifact in one of them; three links for threshold 2, the third dissenting
          "disagreeing_links_extra_artifact", "disagreeing_links_third_signer",
          # the caller trusts two owner keys; one of them signed twice (two distinct signature values of a randomised scheme),
          # the other not at all
          "one_owner_signed_twice_other_not",
          # threshold 2 and only one functionary signed; the second functionary's file is a copy of the first one's link
          # with an additional junk entry under the second functionary's id
          "threshold_unmet_copy_filed_for_second",
          # the failing step rule is a MATCH whose two sides were recorded with different hash algorithms (nothing in common to
          # compare) or, for one of them, with no digest at all: unequal descriptions, the artifact stays for the DISALLOW
          "failing_step_rule_match_other_algorithm", "failing_step_rule_match_without_digest",
          # the failing step rule is a REQUIRE that is reached when nothing is left to consume: an earlier rule took every
          # artifact / the link recorded no products at all
          "failing_step_rule_require_after_all_consumed", "failing_step_rule_require_nothing_recorded",
          # the layout was still valid when the verifying process started (and verified other things); it has expired by the
          # time it is itself verified
          "expired_meanwhile",
          # the LAST step has no link at all; its only functionary also signed (valid) links for the first step
          "missing_last_link_functionary_signed_first_step"]
MEANWHILE = {}
OUTCOMES = ["exit0", "exit1", "exit2", "exit127", "exit255", "killed", "not_found", "creates", "modifies", "deletes"]
RULESETS = ["none", "satisfied", "violated_materials", "violated_products", "products_only_create_preexisting",
            "violated_products_named_like_a_step", "violated_require_after_all_consumed"]
FUNC = ["ed4", "ed5", "ed6", "edp2"]


def script(tag, outcome):
    op = {"creates": "echo new > created.txt", "modifies": "echo changed >> pre.txt", "deletes": "rm -f pre.txt"}.get(outcome, ":")
    code = {"exit1": 1, "exit2": 2, "exit127": 127, "exit255": 255}.get(outcome, 0)
    end = "kill -9 $$" if outcome == "killed" else f"exit {code}"
    return f"echo {tag} >> sentinel.txt; ls -a > snap_{tag}.txt; {op}; {end}"


def rules_of(rs):
    if rs == "none":
        return [], []
    if rs == "satisfied":
        return [["REQUIRE", "pre.txt"], ["ALLOW", "*"]], [["REQUIRE", "sentinel.txt"], ["ALLOW", "*"], ["DISALLOW", "*"]]
    if rs == "violated_materials":
        return [["DISALLOW", "pre.txt"], ["ALLOW", "*"]], [["ALLOW", "*"]]
    if rs == "violated_require_after_all_consumed":
        return [["ALLOW", "*"], ["REQUIRE", "absent.txt"]], [["ALLOW", "*"]]
    if rs == "products_only_create_preexisting":
        # no material rules at all; pre.txt exists before the command runs, so it is not *created* by the inspection:
        # CREATE does not consume it and the DISALLOW after it applies - unless the command deletes the file
        return [], [["CREATE", "*.txt"], ["DISALLOW", "pre.txt"], ["ALLOW", "*"]]
    # also for "violated_products_named_like_a_step": the inspection carries the name of the layout's last step (names
    # need not be unique); its rules apply to what the inspection recorded, not to the step's link
    return [["ALLOW", "*"]], [["DISALLOW", "sentinel.txt"], ["ALLOW", "*"]]


def build_cell(W, rng, stage, outcome, rs, ninsp, level, keyset=FUNC, random_extra=False):
    """returns (reqs, assemble(wires)->case)"""
    ka, kb, kc, kd = keyset[:4]
    thr = 2 if stage in ("threshold_unmet", "disagreeing_links", "disagreeing_links_extra_artifact", "disagreeing_links_third_signer", "threshold_unmet_copy_filed_for_second") else 1
    insp = []
    tags = []
    for j in range(ninsp):
        tag = f"i{j}"
        tags.append(tag)
        # with two inspections the varied outcome / rule set belongs to the LAST one; the first is benign
        last = j == ninsp - 1
        oc = outcome if last else "exit0"
        mr, pr = rules_of(rs if last else "satisfied")
        run = ["/nonexistent/itv-no-such-command"] if oc == "not_found" else ["sh", "-c", script(tag, oc)]
        iname = "package" if (last and rs == "violated_products_named_like_a_step") else f"insp{j}"
        insp.append(scen.mk_inspection(iname, run, mr, pr))
    # the inspected layout: steps build (threshold thr) and package
    build_rules_p = [["DISALLOW", "*"]] if stage == "failing_step_rule" else [["ALLOW", "*"]]
    if stage == "failing_step_rule_match_from_inspection":
        # the failing step also refers (legitimately: unknown names are only warned about) to an inspection's link
        build_rules_p = [["MATCH", "nothing", "WITH", "PRODUCTS", "FROM", "insp0"], ["DISALLOW", "*"]]
    elif stage == "failing_step_rule_match_from_undefined":
        build_rules_p = [["MATCH", "*", "WITH", "MATERIALS", "FROM", "no-such-item"], ["REQUIRE", "never-there"]]
    elif stage == "failing_step_rule_require_after_all_consumed":
        build_rules_p = [["ALLOW", "*"], ["REQUIRE", "never-there"]]
    elif stage == "failing_step_rule_require_nothing_recorded":
        build_rules_p = [["REQUIRE", "never-there"], ["ALLOW", "*"]]
    steps = [scen.mk_step("build", thr, [W.kid(ka), W.kid(kb)], [], [["ALLOW", "*"]], build_rules_p),
             scen.mk_step("package", 1, [W.kid(kc)], [], [["MATCH", "*", "WITH", "PRODUCTS", "FROM", "build"], ["ALLOW", "*"]], [["ALLOW", "*"]])]
    if stage in ("failing_step_rule_match_other_algorithm", "failing_step_rule_match_without_digest"):
        steps[1]["expected_materials"] = [["MATCH", "*", "WITH", "PRODUCTS", "FROM", "build"], ["DISALLOW", "*"]]
    if stage == "failing_last_step_rule":
        steps[1]["expected_products"] = [["MATCH", "*", "WITH", "PRODUCTS", "FROM", "insp0"], ["DISALLOW", "*"]]
    if stage == "disagreeing_links_third_signer":
        steps[0]["pubkeys"] = [W.kid(ka), W.kid(kb), W.kid(kd)]
    if stage == "missing_last_link_functionary_signed_first_step":
        steps[1]["pubkeys"] = [W.kid(ka)]
    surplus = stage.startswith("surplus_")
    if surplus:
        # the delegated step has a second authorised functionary who supplies a perfectly good plain link: the step
        # has enough evidence even without the failing sub-layout, which must nevertheless be fatal
        steps[1]["pubkeys"] = [W.kid(kc), W.kid(kd)]
    sub_stage = stage.replace("surplus_", "") if (stage.startswith("sublayout_") or surplus) else None
    table = [ka, kb, kc, kd]
    expires = "2020-01-01T00:00:00Z" if stage == "expired" else None
    if stage == "expired_meanwhile":
        if "t" not in MEANWHILE:
            import datetime
            MEANWHILE["t"] = (datetime.datetime.now(datetime.timezone.utc) + datetime.timedelta(seconds=4)).replace(microsecond=0)
        expires = MEANWHILE["t"].strftime("%Y-%m-%dT%H:%M:%SZ")
    reqs = []
    inspected_owner = "ed0" if level == "top" else kd
    # links of the inspected layout
    l_build = pipeline.leaf_link("build", 0)
    l_pkg = pipeline.leaf_link("package", 1)
    if stage == "failing_step_rule_require_nothing_recorded":
        l_build["products"] = {}
    if stage == "failing_step_rule_match_other_algorithm":
        l_pkg["materials"] = {p: {"sha512": "5a" * 64} for p in l_pkg["materials"]}
    elif stage == "failing_step_rule_match_without_digest":
        l_pkg["materials"] = {p: {} for p in l_pkg["materials"]}
    links = []   # (filename, req index, post)
    if sub_stage:
        # step "package" of the inspected layout is delegated to kc; its inner layout fails at its own stage
        inner_rules = [["DISALLOW", "*"]] if sub_stage == "sublayout_rule" else [["ALLOW", "*"]]
        inner = scen.mk_layout(W, [ka], [scen.mk_step("inner", 1, [W.kid(ka)], [], [["ALLOW", "*"]], inner_rules)], [],
                               "2020-01-01T00:00:00Z" if sub_stage == "sublayout_expired" else None)
        steps[1]["expected_materials"] = [["ALLOW", "*"]]
    layout = scen.mk_layout(W, table, steps, insp, expires)
    idx = {}
    idx["layout"] = len(reqs)
    reqs.append((layout, [inspected_owner], "new"))
    if stage == "one_owner_signed_twice_other_not":
        idx["layout_ec"] = len(reqs)
        reqs.append(((layout if level == "top" else None) or layout, ["ec-a"], "new"))
        idx["layout_ec2"] = len(reqs)
        reqs.append((layout, ["ec-a"], "builder"))
    signer_build = [ka, kb][:thr]
    if stage == "disagreeing_links_third_signer":
        signer_build = [ka, kb, kd]
    if stage == "unauthorised_link":
        signer_build = [kd]          # kd is in the key table but not authorised for "build"
    extra_k = rng.choice([ka, kb])
    for k in signer_build:
        d = copy.deepcopy(l_build)
        if stage == "disagreeing_links" and k == kb:
            d["products"]["out/o0"] = scen.digest(0x99)
        if stage == "disagreeing_links_extra_artifact" and k == extra_k:
            d[rng.choice(["materials", "products"])]["only/here"] = scen.digest(0x98)
        if stage == "disagreeing_links_third_signer" and k == kd:
            d["products"]["out/o0"] = scen.digest(0x97)
        idx[("build", k)] = len(reqs)
        reqs.append((d, [k], "new"))
    if surplus:
        idx[("package", kd)] = len(reqs)
        reqs.append((l_pkg, [kd], "new"))
    if sub_stage:
        idx["inner_layout"] = len(reqs)
        reqs.append((inner, [kc], "new"))
        idx["inner_link"] = len(reqs)
        reqs.append((pipeline.leaf_link("inner", 0), [ka], "new"))
    else:
        idx[("package", kc)] = len(reqs)
        reqs.append((l_pkg, [kc], "new"))
    if level == "delegated":
        outer = scen.mk_layout(W, [kd], [scen.mk_step("sub", 1, [W.kid(kd)], [], [["ALLOW", "*"]], [["ALLOW", "*"]])], [])
        idx["outer"] = len(reqs)
        reqs.append((outer, ["ed0"], "new"))

    def assemble(wires, base):
        w = lambda key: copy.deepcopy(wires[base + idx[key]])
        files = {}
        prefix = "" if level == "top" else f"sub.{W.pfx(kd)}/"
        lw = w("layout")
        two_owners = False
        if stage == "one_owner_signed_twice_other_not":
            if level == "top":
                # signatures: two independent ECDSA signatures by ec-a; trusted: ec-a and ed0
                a, b = w("layout_ec"), w("layout_ec2")
                lw = a
                lw["signatures"] = a["signatures"] + b["signatures"]
                two_owners = True
            else:
                bb = bytearray(bytes.fromhex(lw["signatures"][0]["sig"]))
                bb[9] ^= 0x01
                lw["signatures"][0]["sig"] = bytes(bb).hex()
        if stage == "bad_owner_signature":
            b = bytearray(bytes.fromhex(lw["signatures"][0]["sig"]))
            b[5] ^= 0x04
            lw["signatures"][0]["sig"] = bytes(b).hex()
        for k in signer_build:
            lk = w(("build", k))
            if stage == "corrupt_link_signature":
                b = bytearray(bytes.fromhex(lk["signatures"][0]["sig"]))
                b[7] ^= 0x20
                lk["signatures"][0]["sig"] = bytes(b).hex()
            if stage == "missing_link":
                continue
            if stage == "threshold_unmet" and k == kb:
                continue
            if stage == "threshold_unmet_copy_filed_for_second" and k == kb:
                cp = w(("build", ka))
                cp["signatures"] = [{"keyid": W.kid(kb), "sig": "00" * 64}] + cp["signatures"]
                files[prefix + f"build.{W.pfx(kb)}.link"] = scen.dumps(cp)
                continue
            files[prefix + f"build.{W.pfx(k)}.link"] = scen.dumps(lk)
        if surplus:
            files[prefix + f"package.{W.pfx(kd)}.link"] = scen.dumps(w(("package", kd)))
        if sub_stage:
            files[prefix + f"package.{W.pfx(kc)}.link"] = scen.dumps(w("inner_layout"))
            if sub_stage != "sublayout_missing_link":
                files[prefix + f"package.{W.pfx(kc)}/inner.{W.pfx(ka)}.link"] = scen.dumps(w("inner_link"))
        elif stage != "missing_last_link_functionary_signed_first_step":
            files[prefix + f"package.{W.pfx(kc)}.link"] = scen.dumps(w(("package", kc)))
        if level == "top":
            top = lw
        else:
            files[f"sub.{W.pfx(kd)}.link"] = scen.dumps(lw)
            top = w("outer")
        stage_fails = stage != "none"
        insp_ok = outcome in ("exit0", "creates", "modifies", "deletes") and (
            rs in ("none", "satisfied") or (rs == "products_only_create_preexisting" and outcome == "deletes"))
        meta = {"stage": stage, "outcome": outcome, "ruleset": rs, "ninsp": ninsp, "level": level, "tags": tags,
                "expect": "accept" if (not stage_fails and insp_ok) else "reject", "stage_fails": stage_fails}
        trusted = [[W.kid("ed0"), W.pub("ed0")]] + ([[W.kid("ec-a"), W.pub("ec-a")]] if two_owners else [])
        c = scen.verify_case(top, trusted, files, work_files={"pre.txt": "original\n"}, meta=meta)
        if stage == "expired_meanwhile":
            c["not_before_ns"] = str(int(MEANWHILE["t"].timestamp()) * 10 ** 9 + 300_000_000)
        return c
    return reqs, assemble


def judge(case, obs, res):
    m = case["meta"]
    if scen.harness_failed(obs):
        res.inconclusive.append(f"executor failure: {str(obs)[:200]}")
        return None
    r = obs["runs"][0]
    ok = r["v"] == "ok"
    work = obs.get("work", {})
    ran = [t for t in work.get("sentinel.txt", "").split("\n") if t]
    link_files = sorted(k for k in work if k.endswith(".link"))
    cell = f"{m['stage']}/{m['outcome']}/{m['ruleset']}/n{m['ninsp']}/{m['level']}"
    if m["stage_fails"]:
        if ran or link_files:
            res.violate(f"inspection-ran-before-steps-verified:{m['stage']}",
                        f"verification fails at stage '{m['stage']}' yet inspections {ran} ran / link files {link_files} "
                        f"were written (cell {cell})", case, obs, "no inspection executed")
        if ok:
            res.violate(f"accept-despite-failing-stage:{m['stage']}", f"verification succeeded although stage {m['stage']} must fail", case, obs, "reject")
        return ok
    # stage none: inspections may run
    if ok and m["expect"] == "reject":
        if m["outcome"] in ("exit1", "exit2", "exit127", "exit255"):
            sig, what = "nonzero-exit-accepted", f"inspection command exited with status {m['outcome'][4:]} and verification succeeded"
        elif m["outcome"] in ("killed", "not_found"):
            sig, what = f"failed-command-accepted:{m['outcome']}", f"inspection command {m['outcome']} and verification succeeded"
        else:
            sig, what = f"inspection-rule-not-enforced:{m['ruleset']}", f"inspection rule set '{m['ruleset']}' is violated by the recorded artifacts and verification succeeded"
        res.violate(sig, f"{what} (cell {cell})", case, obs, "reject")
    if (not ok) and m["expect"] == "accept":
        res.inconclusive.append(f"positive control rejected in cell {cell}: {r.get('e')}")
    # (d) order / multiplicity
    if len(ran) != len(set(ran)):
        res.violate("inspection-ran-twice", f"inspections ran {ran} (cell {cell})", case, obs, "each at most once")
    if ran != m["tags"][:len(ran)]:
        res.violate("inspection-order", f"inspections ran in order {ran}, layout order {m['tags']} (cell {cell})", case, obs, m["tags"])
    if ok:
        if ran != m["tags"] and m["outcome"] != "not_found":
            res.violate("inspection-skipped", f"verification succeeded but only {ran} of {m['tags']} ran", case, obs, m["tags"])
        if len(ran) == 2:
            snap = work.get("snap_i1.txt", "")
            if "insp0.link" not in snap:
                res.violate("inspection-link-not-dumped-in-order", "second inspection did not see the first one's link file", case, obs, None)
        # the dumped inspection link records the command's exit status
        for j, t in enumerate(ran):
            lf = work.get(f"insp{j}.link")
            if lf is None:
                res.violate("inspection-link-missing", f"insp{j}.link was not written", case, obs, None)
    return ok


def shard(binpath, seed, sh, cells, keysets):
    rng = common.rng_for(seed, PROP, sh)
    W = scen.World(binpath)
    res = common.Result()
    reqs, asm = [], []
    for cell in cells:
        r, a = build_cell(W, rng, *cell[:5], keyset=keysets[cell[5]])
        asm.append((a, len(reqs)))
        reqs.extend(r)
    wires = scen.sign_all(binpath, reqs, nproc=1)
    cases = [a(wires, base) for a, base in asm]
    obs = common.run_batch(binpath, cases)
    for c, o in zip(cases, obs):
        m = c["meta"]
        ok = judge(c, o, res)
        if ok is None:
            continue
        work = o.get("work", {})
        ran = [t for t in work.get("sentinel.txt", "").split("\n") if t]
        cls = [f"stage:{m['stage']}", f"outcome:{m['outcome']}", f"rules:{m['ruleset']}", f"level:{m['level']}",
               f"ninsp:{m['ninsp']}", "accepted" if ok else "rejected", f"inspections_ran:{len(ran)}"]
        if ok and m["expect"] == "accept":
            cls.append("positive_control_accepted")
        res.note([m["stage"], m["outcome"], m["ruleset"], m["ninsp"], m["level"], c["layout"][:40]], True, cls=cls)
    if sh == 0:
        for c, o in list(zip(cases, obs))[:3]:
            res.sample({"cell": {k: c["meta"][k] for k in ("stage", "outcome", "ruleset", "ninsp", "level", "expect")},
                        "verdict": scen.verdicts(o), "error": o["runs"][0].get("e"), "work_dir": sorted(o.get("work", {}))})
    return res


def main(ctx):
    keysets = [FUNC, ["ec-b", "ed5", "rsa-2048-a", "edp1"], ["edp2", "ec-c", "ed6", "rsa-2048-b512"]]
    cells = [(s, o, r, n, lv, 0) for s in STAGES for o in OUTCOMES for r in RULESETS for n in (1, 2)
             for lv in ("top", "delegated")]
    ncells = len(cells)
    if ctx.thorough:
        cells = cells + [c[:5] + (1,) for c in cells] + [c[:5] + (2,) for c in cells]
    rng = ctx.rng(1)
    rng.shuffle(cells)
    n = common.NPROC
    res = common.Result()
    for p in common.pmap(shard, [(ctx.bin, ctx.seed, s, cells[s::n], keysets) for s in range(n)]):
        res.merge(p)
    res.extras["exhaustive"] = True
    res.extras["grid"] = {"stages": STAGES, "outcomes": OUTCOMES, "rulesets": RULESETS, "ninsp": [1, 2],
                          "levels": ["top", "delegated"], "cells": ncells}
    return common.finish(
        PROP, ctx.tier, ctx.seed, res, t0=ctx.t0, level="fault_enumeration",
        rule="complete grid failing stage (23) x inspection outcome (10) x inspection rule set (6) x 1-2 inspections x "
             "{top-level, delegated layout}; every cell is one real in_toto_verify call in a fresh working directory, "
             "observed through the inspection command's own sentinel/snapshot files; every cell is non-trivial and "
             "distinct; thorough repeats the grid with other key types",
        assumptions=["/bin/sh is available", "ground truth of each stage by construction"],
        required=["positive_control_accepted", "inspections_ran:0", "inspections_ran:1", "inspections_ran:2",
                  "level:delegated", "outcome:killed", "outcome:not_found"] + ["stage:" + s for s in STAGES],
        min_evals=ncells)
