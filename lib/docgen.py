"""Random layouts and links in wire form, with hostile text in every string-bearing field."""
import jsongen as jg
import scen

CAPTURED = ["", "ok\n", "line1\nline2\n", "tab\there", "cr\r\nlf", "back\\slash", 'quote"d', "\\n", "\\\n", "a\\nb",
            "\x1b[31mred\x1b[0m", "progress\r100%", "bell\x07", "nul\x00", "del\x7f", " ", "😀", "é",
            "x" * 300, "\\u0041", "\\\\", '\\"', "\n\n", "\t", "{\"a\":1}", "[1,2]", "a,b", "a\":\"b",
            "C:\\new\\temp", "out\\tmp.bin", "\\u2713 ok", "a\\/b", "\\r\\n"]

GLOBS = ["*", "*.c", "src/*", "a?c", "[ab]*", "[!a]*", "dir/sub/*", "foo", "foo.tar.gz", "a b", "é*"]
PATHS = ["foo", "bar", "src/a.c", "src/b.c", "dir/sub/x", "a b", "é", "foo.tar.gz", ".hidden", "x/y/z",
         # legitimate but unusual spellings: runs of separators, dot components, URI-like names
         "a///b", "file:///srv/x", "./foo", "a/./b", "a//b", "x/../y", "dir/", "/abs/p",
         # a backslash is an ordinary character of a path
         "dist\\foo.tar.gz", "C:\\out\\a.bin", "a\\/b"]

# MATCH prefixes: a prefix is kept as written (trailing / doubled separators, dot components, backslashes included)
PREFIXES = ["src", "dir/sub", "out", "", "dist/", "dir/sub/", "src//", "./src", "/", "a/../b", "C:\\out\\", "out/."]


def hs(rng, hostile=0.5):
    """a string: plain identifier, captured-output-like or random hostile text"""
    r = rng.random()
    if r > hostile:
        return rng.choice(["build", "test", "package", "a", "b1", "step-x", "name_2"])
    if r < hostile * 0.5:
        return rng.choice(CAPTURED)
    return jg.rand_string(rng, 10)


def rand_rule(rng, steps=("s0",), hostile=0.2):
    k = rng.randrange(8)
    pat = rng.choice(GLOBS) if rng.random() > hostile else hs(rng, 1.0)
    if k < 6:
        return [["CREATE", "DELETE", "MODIFY", "ALLOW", "REQUIRE", "DISALLOW"][k], pat]
    r = ["MATCH", pat]
    if rng.random() < 0.4:
        r += ["IN", rng.choice(PREFIXES) if rng.random() > hostile else hs(rng, 1.0)]
    r += ["WITH", rng.choice(["MATERIALS", "PRODUCTS"])]
    if rng.random() < 0.4:
        r += ["IN", rng.choice(PREFIXES) if rng.random() > hostile else hs(rng, 1.0)]
    r += ["FROM", rng.choice(list(steps)) if rng.random() > hostile else hs(rng, 1.0)]
    return r


def rand_artifacts(rng, hostile=0.2):
    d = {}
    for _ in range(rng.choice([0, 1, 2, 3])):
        p = rng.choice(PATHS) if rng.random() > hostile else hs(rng, 1.0)
        alg = rng.choice(["sha256", "sha256", "sha512"])
        d[p] = scen.digest(rng.randrange(256), alg)
        if rng.random() < 0.15:
            d[p].update(scen.digest(rng.randrange(256), "sha512" if alg == "sha256" else "sha256"))
        elif rng.random() < 0.06:
            d[p] = {}          # an artifact recorded without any digest is a legitimate (if unhelpful) entry
    return d


def rand_byproducts(rng, hostile=0.5):
    b = {}
    if rng.random() < 0.8:
        b["stdout"] = hs(rng, hostile)
    if rng.random() < 0.8:
        b["stderr"] = hs(rng, hostile)
    if rng.random() < 0.8:
        b["return-value"] = rng.choice([0, 1, 2, 127, 255, -1, 2 ** 31 - 1, -(2 ** 31)])
    for _ in range(rng.choice([0, 0, 1, 2])):
        k = hs(rng, hostile)
        if k not in ("stdout", "stderr", "return-value"):
            b[k] = hs(rng, hostile)
    return b


def rand_link(rng, hostile=0.5, name=None):
    env = None
    r = rng.random()
    if r < 0.3:
        env = {}
    elif r < 0.6:
        env = {hs(rng, hostile): hs(rng, hostile) for _ in range(rng.choice([1, 2]))}
    return scen.mk_link(name if name is not None else hs(rng, hostile), rand_artifacts(rng, hostile * 0.4),
                        rand_artifacts(rng, hostile * 0.4),
                        [hs(rng, hostile) for _ in range(rng.choice([0, 1, 3]))],
                        rand_byproducts(rng, hostile), env)


LEAP_EXPIRIES = ["2016-12-31T23:59:60Z", "2015-06-30T23:59:60Z", "2030-12-31T23:59:60Z"]


def rand_expiry(rng):
    if rng.random() < 0.08:
        return rng.choice(LEAP_EXPIRIES)
    y = rng.choice([1970, 1999, 2000, 2024, 2030, 2038, 2100, 9999, 2027])
    return "%04d-%02d-%02dT%02d:%02d:%02dZ" % (y, rng.randrange(1, 13), rng.randrange(1, 29), rng.randrange(24),
                                               rng.randrange(60), rng.randrange(60))


def rand_layout(rng, W, hostile=0.5, key_pool=None, expires=None):
    key_pool = key_pool or ["ed0", "ed1", "edp0", "ec-a", "rsa-2048-a"]
    keys = rng.sample(key_pool, rng.randrange(0, min(4, len(key_pool)) + 1))
    nsteps = rng.choice([0, 1, 2, 3])
    names = []
    for i in range(nsteps):
        n = hs(rng, hostile * 0.6)
        if n in names:
            n += str(i)
        names.append(n)
    steps = []
    for n in names:
        steps.append(scen.mk_step(
            n, rng.choice([0, 1, 1, 2, 3, 2 ** 32 - 1]),
            [(W.kid(k).upper() if rng.random() < 0.08 else W.kid(k)) for k in rng.sample(key_pool, rng.randrange(0, 3))],
            [hs(rng, hostile) for _ in range(rng.choice([0, 1, 2]))],
            [rand_rule(rng, names or ("s0",), hostile * 0.4) for _ in range(rng.choice([0, 1, 2]))],
            [rand_rule(rng, names or ("s0",), hostile * 0.4) for _ in range(rng.choice([0, 1, 2]))]))
    insp = []
    for i in range(rng.choice([0, 0, 1, 2])):
        insp.append(scen.mk_inspection(
            hs(rng, hostile * 0.6) + str(i), [hs(rng, hostile) for _ in range(rng.choice([0, 1, 3]))],
            [rand_rule(rng, names or ("s0",), hostile * 0.4) for _ in range(rng.choice([0, 1]))],
            [rand_rule(rng, names or ("s0",), hostile * 0.4) for _ in range(rng.choice([0, 1]))]))
    layout = scen.mk_layout(W, keys, steps, insp, expires or rand_expiry(rng), hs(rng, hostile))
    # some entries describe the key without / with an empty hash-algorithm list: another description, another id
    for kid in list(layout["keys"]):
        if rng.random() < 0.25:
            import hashlib
            import jsongen
            pub = layout["keys"].pop(kid)
            pub.pop("keyid", None)
            if rng.random() < 0.6:
                pub.pop("keyid_hash_algorithms", None)
            else:
                pub["keyid_hash_algorithms"] = []
            d = {"keytype": pub["keytype"], "scheme": pub["scheme"], "keyval": {"public": pub["keyval"]["public"]}}
            if "keyid_hash_algorithms" in pub:
                d["keyid_hash_algorithms"] = pub["keyid_hash_algorithms"]
            nid = hashlib.sha256(jsongen.olpc_canon(d).encode()).hexdigest()
            pub["keyid"] = nid
            layout["keys"][nid] = pub
    return layout
