"""C04 — signature thresholds count distinct authorised keys with valid signatures.

Monitor: Metablock::verify(t, keys) is driven with constructed signature lists whose ground
truth (which entry is an intact signature by which key over this content) is known by
construction.  Soundness and the converse (for at-most-once lists) are checked, as are
permutation invariance and the returned content.
"""
import copy
import json

import common
import crowd
import scen

PROP = "C04"


def judge(case, obs, res):
    m = case["meta"]
    t, v, once = m["t"], m["v"], m["once"]
    if "parse" not in obs or obs.get("parse") != "ok" or "auth_err" in obs:
        res.inconclusive.append(f"generated block did not parse: {str(obs)[:300]}")
        return None
    ver = obs.get("verify")
    ok = ver == "ok"
    if isinstance(ver, dict) and "panic" in ver:
        res.violate("verify-panic", f"block verification panicked: {ver['panic']}", case, obs, "ok or err")
        return None
    if ok and t < 1:
        res.violate("accept-threshold-zero", "verification succeeded with threshold 0", case, obs, "err")
    elif ok and v < t:
        res.violate("accept-below-threshold:" + m["why"],
                    f"verification succeeded with {v} distinct authorised valid signers < threshold {t} ({m['why']})",
                    case, obs, "err")
    if (not ok) and once and t >= 1 and v >= t:
        res.violate("reject-although-threshold-met",
                    f"each key signs at most once, {v} >= {t} distinct authorised keys have valid signatures, "
                    f"yet verification failed: {ver}", case, obs, "ok")
    if ok:
        if obs.get("ret_eq") is not True or not json_eq(obs.get("ret_wire"), obs.get("in_wire")):
            res.violate("returned-content-differs", "verify returned content different from the block's", case, obs, None)
    return ok


def json_eq(a, b):
    return json.dumps(a, sort_keys=True) == json.dumps(b, sort_keys=True)


ENTRY_KINDS = ["valid", "valid", "valid", "flipped", "dup", "resign", "mislabeled", "other_content", "absent"]


def shard(binpath, seed, sh, ncases):
    rng = common.rng_for(seed, PROP, sh)
    W = scen.World(binpath)
    res = common.Result()
    weird = scen.unknown_scheme_keys(binpath)
    # 1. content + signatures by every pool key over content and over another content
    plans = []
    reqs = []
    for ci in range(ncases):
        if rng.random() < 0.12:
            pool = rng.sample(common.ALL_KEYS, 6)
        else:
            pool = rng.sample(common.FAST_KEYS, 6)
        content = scen.mk_link(f"step{rng.randrange(1000)}", {"a": scen.digest(rng.randrange(256))},
                               {"b": scen.digest(rng.randrange(256))}, ["cmd", str(ci)],
                               {"stdout": rng.choice(["", "x", "line\n", "é"]), "return-value": rng.randrange(3)})
        other = copy.deepcopy(content)
        other["name"] += "-other"
        base = len(reqs)
        for k in pool:
            reqs.append((content, [k], "new"))
            reqs.append((content, [k], "builder"))   # second, independent signature
            reqs.append((other, [k], "new"))
        plans.append((pool, content, base))
    wires = scen.sign_all(binpath, reqs, nproc=1)
    cases = []
    for ci, (pool, content, base) in enumerate(plans):
        sig = {k: wires[base + 3 * i]["signatures"][0] for i, k in enumerate(pool)}
        sig2 = {k: wires[base + 3 * i + 1]["signatures"][0] for i, k in enumerate(pool)}
        sigo = {k: wires[base + 3 * i + 2]["signatures"][0] for i, k in enumerate(pool)}
        # history: first the genuine block over the OTHER content is verified (its signatures are good and become
        # known to the process), then this content is offered with exactly those signature entries: nothing verified
        # earlier may stand in for a check over the content at hand
        other = copy.deepcopy(content)
        other["name"] += "-other"
        osl = [{"keyid": W.kid(k), "sig": sigo[k]["sig"]} for k in pool]
        cases.append({"op": "block", "text": json.dumps({"signatures": osl, "signed": other}), "threshold": len(pool),
                      "auth": [W.pub(k) for k in pool],
                      "meta": {"t": len(pool), "v": len(pool), "once": True, "why": "history_genuine_other_content", "group": -1 - ci, "perm": 0,
                               "entries": [[k, k] for k in pool], "auth": list(pool)}})
        for tt in (1, len(pool)):
            cases.append({"op": "block", "text": json.dumps({"signatures": osl, "signed": content}), "threshold": tt,
                          "auth": [W.pub(k) for k in pool],
                          "meta": {"t": tt, "v": 0, "once": True, "why": "replayed_after_genuine_verification", "group": -1 - ci, "perm": 1 + tt,
                                   "entries": [[k, None] for k in pool], "auth": list(pool)}})
        nauth = rng.choice([0, 1, 2, 3, 4, 6])
        auth = rng.sample(pool, nauth)
        auth_list = list(auth)
        if auth and rng.random() < 0.3:
            auth_list.append(rng.choice(auth))            # duplicate authorised key
        entries = []   # (label_key, sig_hex, valid_for)
        why = set()
        kinds = ENTRY_KINDS if rng.random() < 0.5 else [x for x in ENTRY_KINDS if x not in ("dup", "resign")]
        for k in pool:
            kind = rng.choice(kinds)
            if kind == "absent":
                continue
            if kind == "valid":
                entries.append((k, sig[k]["sig"], k))
            elif kind == "flipped":
                b = bytearray(bytes.fromhex(sig[k]["sig"]))
                pos = rng.randrange(len(b) * 8)
                b[pos // 8] ^= 1 << (pos % 8)
                entries.append((k, b.hex(), None))
                why.add("flipped")
            elif kind == "dup":
                entries.append((k, sig[k]["sig"], k))
                entries.append((k, sig[k]["sig"], k))
                why.add("dup")
            elif kind == "resign":
                entries.append((k, sig[k]["sig"], k))
                entries.append((k, sig2[k]["sig"], k))
                why.add("resign")
            elif kind == "mislabeled":
                k2 = rng.choice([x for x in pool if x != k])
                entries.append((k, sig[k2]["sig"], None))   # made by k2, labelled k
                why.add("mislabeled")
            elif kind == "other_content":
                entries.append((k, sigo[k]["sig"], None))
                why.add("other_content")
        if any(k not in auth for k, _, vf in entries if vf):
            why.add("unauthorised")
        # an authorised key with an unknown signature scheme: entries labelled with its id can never be valid
        extra_auth, extra_entries = [], []
        if weird and rng.random() < 0.25:
            wk = rng.choice(weird)
            extra_auth.append(wk["pub"])
            donor = sig[rng.choice(pool)]["sig"]
            extra_entries.append({"keyid": wk["keyid"], "sig": rng.choice([donor, "ab" * 64, "", "00" * 256])})
            why.add("unknown_scheme_key")
        # authorised keys whose JSON description *declares* a "keyid" member that is not the key's own id: the id of
        # a key is derived from the key, so the declaration can neither give the key a second identity (its signature
        # repeated under the declared label counts nothing) nor displace the key that really owns that id
        ra = rng.random()
        if auth and ra < 0.15:
            k = rng.choice(auth)
            outs = [x for x in common.ALL_KEYS if x not in pool]
            fake = rng.choice(["ef" * 32, W.kid(rng.choice(outs)) if outs else "ef" * 32])
            p = copy.deepcopy(W.pub(k))
            p["keyid"] = fake
            extra_auth.append(p)
            extra_entries.append({"keyid": fake, "sig": sig[k]["sig"]})
            why.add("auth_key_declares_second_id")
        elif len(auth) >= 2 and ra < 0.3:
            a, b = rng.sample(auth, 2)
            p = copy.deepcopy(W.pub(b))
            p["keyid"] = W.kid(a)
            extra_auth.append(p)             # b once more, declaring a's id (b itself stays in the list)
            why.add("auth_key_declares_other_id")
        labels = [k for k, _, _ in entries]
        once = len(labels) == len(set(labels))
        v = len({vf for k, _, vf in entries if vf is not None and vf in auth})
        n = len(pool)
        t = rng.choice([0, 1, 1, 2, 2, 3, v, v, v + 1, max(0, v - 1), n, n + 1, 2 ** 32 - 1])
        for perm in range(3):
            es = list(entries)
            al = list(auth_list)
            if perm:
                rng.shuffle(es)
                rng.shuffle(al)
            sigl = [{"keyid": W.kid(k), "sig": s} for k, s, _ in es] + extra_entries
            if perm:
                rng.shuffle(sigl)
            wire = {"signatures": sigl, "signed": content}
            cases.append({"op": "block", "text": json.dumps(wire), "threshold": t,
                          "auth": [W.pub(k) for k in al] + extra_auth,
                          "meta": {"t": t, "v": v, "once": once, "why": "+".join(sorted(why)) or "plain",
                                   "group": ci, "perm": perm,
                                   "entries": [[k, vf] for k, _, vf in es], "auth": al}})
    obs = common.run_batch(binpath, cases)
    groups = {}
    for c, o in zip(cases, obs):
        m = c["meta"]
        if any(k in o for k in ("crash", "watchdog", "missing")):
            res.inconclusive.append(f"executor failure: {str(o)[:200]}")
            continue
        ok = judge(c, o, res)
        nontrivial = len(m["entries"]) > 0 and len(m["auth"]) > 0
        if ok and m["t"] >= 2:
            res.classes["accepted_with_t>=2"] += 1
        cls = ["t=0" if m["t"] == 0 else ("t>n" if m["t"] > 6 else "t in 1..n"),
               "accepted" if ok else "rejected", "once" if m["once"] else "repeated-labels"]
        cls += ["kind:" + w for w in m["why"].split("+")]
        res.note([m["entries"], m["auth"], m["t"], c["text"][:80]], nontrivial, cls=cls)
        if ok is not None and m["once"] and m["group"] >= 0:
            groups.setdefault(m["group"], []).append((ok, c, o))
    for g, lst in groups.items():
        if len({x[0] for x in lst}) > 1:
            res.violate("permutation-dependent", "verdict differs between permutations of the signature / key lists",
                        lst[0][1], [x[0] for x in lst], "one verdict")
    if sh == 0 and cases:
        res.sample({"meta": cases[0]["meta"], "verify": obs[0].get("verify")})
        res.sample({"meta": cases[5]["meta"], "verify": obs[5].get("verify")})
    return res


def twins(binpath, res, seed):
    """pairs of unequal contents that any non-injective step between the value and the signed bytes would merge
    (a quote, a backslash, a separator inside a string against the same characters as structure): signatures over one
    twin count nothing on the other; and a signature made directly over the reference canonical bytes of a content with
    such characters is a valid signature over the block's canonical content"""
    import jsongen
    rng = common.rng_for(seed, PROP, 555)
    W = scen.World(binpath)

    def link(**kw):
        d = scen.mk_link("twin", {"a": scen.digest(1)}, {"b": scen.digest(2)}, ["c"], {"stdout": "o", "return-value": 0}, {"E": "v"})
        for k, v in kw.items():
            if k in ("stdout", "stderr"):
                d["byproducts"][k] = v
            else:
                d[k] = v
        return d
    pairs = [(link(command=['a","b']), link(command=["a", "b"])),
             (link(stdout='o","stderr":"e'), link(stdout="o", stderr="e")),
             (link(command=['a\\","b']), link(command=["a\\", "b"])),
             (link(environment={"K": 'v","L":"w'}), link(environment={"K": "v", "L": "w"})),
             (link(command=["a\\nb"]), link(command=["a\nb"])),
             (link(name='twin","x":"y'), link(name="twin")),
             (link(command=['say "done"']), link(command=["say done"]))]
    keys = ["ed2", "edp1", "ec-b", "rsa-2048-a"]
    reqs = [(a, [k], "new") for a, b in pairs for k in keys]
    wires = scen.sign_all(binpath, reqs, nproc=1)
    raw = common.run_batch(binpath, [{"op": "rawsig", "key": k, "msg": {"hex": jsongen.olpc_canon(a).encode().hex()}} for a, b in pairs for k in keys])
    cases = []
    i = 0
    for a, b in pairs:
        for k in keys:
            sa = wires[i]["signatures"][0]
            ro = raw[i]
            i += 1
            auth = [W.pub(k)]
            cases.append({"op": "block", "text": json.dumps({"signatures": [sa], "signed": a}), "threshold": 1, "auth": auth,
                          "meta": {"kind": "twin_control", "expect": "accept", "key": k}})
            cases.append({"op": "block", "text": json.dumps({"signatures": [sa], "signed": b}), "threshold": 1, "auth": auth,
                          "meta": {"kind": "twin_signature_on_other_twin", "expect": "reject", "key": k}})
            if "ok" in ro:
                cases.append({"op": "block", "text": json.dumps({"signatures": [ro["ok"]], "signed": a}), "threshold": 1, "auth": auth,
                              "meta": {"kind": "signature_over_reference_bytes", "expect": "accept", "key": k}})
    obs = common.run_batch(binpath, cases)
    for c, o in zip(cases, obs):
        m = c["meta"]
        if any(x in o for x in ("crash", "watchdog", "missing")) or o.get("parse") != "ok" or "auth_err" in o:
            res.inconclusive.append(f"twin case failed in the executor: {str(o)[:200]}")
            continue
        ok = o.get("verify") == "ok"
        res.note([c["text"], m["kind"], m["key"]], True, cls=[f"kind:{m['kind']}", "accepted" if ok else "rejected"])
        if ok and m["expect"] == "reject":
            res.violate("accept-signature-over-other-content:twin", f"a signature by {m['key']} over one content was accepted on an unequal content "
                        f"(the two differ only in where a quote / backslash / separator stands)", c, o, "err")
        if not ok and m["expect"] == "accept":
            res.violate(f"reject-although-threshold-met:{m['kind']}", f"one authorised key ({m['key']}) has a valid signature over the block's canonical "
                        f"content, threshold 1, yet verification failed: {o.get('verify')}", c, o, "ok")


def returned_layout(binpath, res, seed, n):
    """layouts: what verification hands back is what the signatures cover.  A signed layout is put on the wire with one more
    key-table entry (filed under an identifier that is not its key's, under another key's identifier, under a made-up one):
    whether the block is then refused or accepted, the returned layout's key table - read from the value in memory - is the
    signed one"""
    import pipeline
    rng = common.rng_for(seed, PROP, 556)
    W = scen.World(binpath)
    plans, reqs = [], []
    for i in range(n):
        owner = rng.choice(["ed0", "edp0", "ec-a", "rsa-2048-a"])
        layout, plan = pipeline.valid_layout(rng, W)
        plans.append((owner, layout))
        reqs.append((layout, [owner], "new"))
    wires = scen.sign_all(binpath, reqs, nproc=1)
    cases = []
    for (owner, layout), w in zip(plans, wires):
        signed_ids = sorted(w["signed"]["keys"])
        for how in ("control", "foreign_key_under_made_up_id", "table_key_under_second_id", "foreign_key_under_table_id_respelled"):
            w2 = copy.deepcopy(w)
            outsider = W.pub(rng.choice(["ed7", "edp3", "ec-c"]))
            if how == "foreign_key_under_made_up_id":
                w2["signed"]["keys"]["ab" * 32] = outsider
            elif how == "table_key_under_second_id" and signed_ids:
                w2["signed"]["keys"]["cd" * 32] = copy.deepcopy(w["signed"]["keys"][signed_ids[0]])
            elif how == "foreign_key_under_table_id_respelled" and signed_ids:
                w2["signed"]["keys"][signed_ids[0].upper()] = outsider
            elif how != "control":
                continue
            cases.append({"op": "block", "text": json.dumps(w2), "threshold": 1, "auth": [W.pub(owner)],
                          "meta": {"kind": "returned_layout:" + how, "signed_ids": signed_ids, "nsteps": len(w["signed"]["steps"])}})
    obs = common.run_batch(binpath, cases)
    for c, o in zip(cases, obs):
        m = c["meta"]
        if any(x in o for x in ("crash", "watchdog", "missing")) or "auth_err" in o:
            res.inconclusive.append(f"returned-layout case failed in the executor: {str(o)[:200]}")
            continue
        ok = o.get("verify") == "ok"
        res.note([c["text"][:200], m["kind"]], True, cls=[f"kind:{m['kind']}", "accepted" if ok else "rejected"])
        if m["kind"].endswith("control") and not ok:
            res.inconclusive.append(f"returned-layout control rejected: {o.get('verify') or o.get('parse')}")
        if ok:
            got = sorted(k for k, _ in o.get("ret_layout_keys", []))
            own = sorted(k for _, k in o.get("ret_layout_keys", []))
            if got != m["signed_ids"] or own != m["signed_ids"]:
                res.violate("returned-content-not-what-was-signed:key_table",
                            f"verification succeeded and returned a layout whose key table holds {got} (own ids {own}); the signatures "
                            f"cover a layout with the table {m['signed_ids']} ({m['kind']})", c, o, m["signed_ids"])


def layout_gate(binpath, res, seed):
    """final-product verification checks the layout block against the caller's keys with t = number of keys: the same
    rule (t >= 1, t distinct keys with valid signatures) seen through that entry point, empty key map included"""
    import pipeline
    rng = common.rng_for(seed, PROP, 8800)
    W = scen.World(binpath)
    owners = ["ed0", "ed1", "ec-a"]
    plans, reqs = [], []
    for i in range(6):
        layout, plan = pipeline.valid_layout(rng, W, readme=f"gate {i}")
        links = pipeline.valid_links(rng, W, plan)
        base = len(reqs)
        for S in ([], ["ed0"], ["ed0", "ed1"], ["ed0", "ed1", "ec-a"]):
            reqs.append((layout, S, "new"))
        for l in links:
            reqs.append((l["doc"], l["signers"], "new"))
        plans.append((base, links))
    wires = scen.sign_all(binpath, reqs, nproc=1)
    cases = []
    for base, links in plans:
        lw = wires[base:base + 4]
        link_w = wires[base + 4: base + 4 + len(links)]
        for ns, w in enumerate(lw):
            files = pipeline.assemble(W, w, list(zip(links, link_w)))
            for nk in range(0, 4):
                keys = [[W.kid(k), W.pub(k)] for k in owners[:nk]]
                v = min(ns, nk)                      # supplied keys that signed
                expect = "accept" if (nk >= 1 and ns >= nk) else "reject"
                cases.append(scen.verify_case(w, keys, files, reps=1, meta={"t": nk, "v": v, "signers": ns, "expect": expect}))
    obs = common.run_batch(binpath, cases)
    for c, o in zip(cases, obs):
        m = c["meta"]
        if scen.harness_failed(o):
            res.inconclusive.append(f"executor failure: {str(o)[:200]}")
            continue
        ok = o["runs"][0]["v"] == "ok"
        if ok and m["expect"] == "reject":
            sig = "accept-threshold-zero:layout_gate" if m["t"] == 0 else "accept-below-threshold:layout_gate"
            res.violate(sig, f"final-product verification accepted a layout carrying {m['signers']} owner signature(s) against {m['t']} supplied key(s) "
                        f"({m['v']} of them signed)", c, o, "reject")
        if (not ok) and m["expect"] == "accept":
            res.inconclusive.append(f"layout_gate positive control rejected: {o['runs'][0].get('e')}")
        res.note([c["layout"], c["caller_keys"]], True, cls=[f"layout_gate:keys:{m['t']}", "layout_gate:" + ("accepted" if ok else "rejected")])


SIBLING = {"rsa-2048-a": "rsa-2048-a512", "rsa-2048-b": "rsa-2048-b512"}


def sibling_scheme(binpath, res, seed):
    """one RSA key pair under its two signature schemes is two keys (two ids): a signature made under one scheme is not
    a signature of the other key, wherever it is filed"""
    W = scen.World(binpath)
    cases = []
    for i, (a, b) in enumerate(sorted(SIBLING.items())):
        content = scen.mk_link(f"sibling{i}", {"a": scen.digest(i)}, {"b": scen.digest(9)}, ["c"], {"return-value": 0})
        wa, wb = scen.sign_all(binpath, [(content, [a], "new"), (content, [b], "new")], nproc=1)
        sa, sb = wa["signatures"][0]["sig"], wb["signatures"][0]["sig"]
        ia, ib = W.kid(a), W.kid(b)
        plans = [
            ([{"keyid": ia, "sig": sb}], [a], 1, 0, "sibling_scheme_signature_under_this_key's_id"),
            ([{"keyid": ib, "sig": sa}], [b], 1, 0, "sibling_scheme_signature_under_this_key's_id"),
            ([{"keyid": ia, "sig": sb}, {"keyid": ib, "sig": sa}], [a, b], 1, 0, "sibling_scheme_signatures_crossed"),
            ([{"keyid": ia, "sig": sa}, {"keyid": ib, "sig": sb}], [a, b], 2, 2, "sibling_scheme_both_genuine"),
            ([{"keyid": ia, "sig": sa}, {"keyid": ib, "sig": sa}], [a, b], 2, 1, "sibling_scheme_one_signature_under_both_ids"),
            ([{"keyid": ib, "sig": sb}], [a], 1, 0, "sibling_scheme_only_the_other_key_signed"),
        ]
        for entries, auth, t, v, why in plans:
            cases.append({"op": "block", "text": json.dumps({"signatures": entries, "signed": content}), "threshold": t,
                          "auth": [W.pub(k) for k in auth],
                          "meta": {"t": t, "v": v, "once": True, "why": why, "entries": len(entries)}})
    obs = common.run_batch(binpath, cases)
    for c, o in zip(cases, obs):
        ok = judge(c, o, res)
        if ok is None:
            continue
        res.note([c["text"], c["threshold"]], True, cls=["kind:" + c["meta"]["why"].split("'")[0], "sibling_scheme:" + ("ok" if ok else "err")])


def main(ctx):
    res = common.Result()
    n = 300 if not ctx.thorough else 6000
    for p in common.pmap(shard, [(ctx.bin, ctx.seed, s, n) for s in range(common.NPROC)]):
        res.merge(p)
    twins(ctx.bin, res, ctx.seed)
    sibling_scheme(ctx.bin, res, ctx.seed)
    layout_gate(ctx.bin, res, ctx.seed)
    for p in common.pmap(crowd.signature_lists, [(ctx.bin, ctx.seed, PROP, s, 7 if not ctx.thorough else 42, judge) for s in range(4 if not ctx.thorough else common.NPROC)]):
        res.merge(p)
    returned_layout(ctx.bin, res, ctx.seed, 40 if not ctx.thorough else 800)
    return common.finish(
        PROP, ctx.tier, ctx.seed, res, t0=ctx.t0,
        rule="signed link blocks with per-key signature entries drawn from {valid, bit-flipped, duplicated entry, "
             "second independent signature, mislabelled (made by another key), made over other content, absent}, "
             "authorised lists (empty/subset/duplicates), thresholds {0..n+1, v, v±1, u32::MAX}, 3 permutations each; "
             "non-trivial = non-empty signature list and non-empty authorised list; distinct by SHA-256 of "
             "(entries, authorised, threshold, content)",
        assumptions=["ground truth of signature validity is by construction (who signed which bytes, what was edited)",
                     "ring's primitives are correct"],
        required=["layout_gate:keys:0", "layout_gate:keys:3", "layout_gate:accepted", "layout_gate:rejected", "sibling_scheme:ok", "sibling_scheme:err", "crowd:block:ok", "crowd:block:err", "crowd:size:48", "crowd:size:33", "accepted", "rejected", "t=0", "t>n", "kind:dup", "kind:resign", "kind:mislabeled",
                  "kind:flipped", "kind:unauthorised", "kind:other_content", "kind:unknown_scheme_key", "kind:auth_key_declares_second_id",
                  "kind:auth_key_declares_other_id", "kind:replayed_after_genuine_verification", "kind:history_genuine_other_content", "kind:twin_control", "kind:twin_signature_on_other_twin",
                  "kind:signature_over_reference_bytes", "kind:returned_layout:control", "kind:returned_layout:foreign_key_under_made_up_id", "once", "repeated-labels",
                  "accepted_with_t>=2"],
        min_evals=1000)
